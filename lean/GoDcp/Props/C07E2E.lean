import GoDcp.Model.RmE2E
import GoDcp.Props.C07
import GoDcp.Driver.RmE2E
/-!
# C07 for the composed system (stream `c07e2e`)

`Model/RmE2E.lean` composes, per vBucket, the replica table of the rollback mitigation with the observer gate
of the SAME vBucket (`MinSeqNo.Sys`), adds the per-connection DCP queue of gocbcore and the session life cycle
of `stream.Open` / `stream.Close`.  The theorems below are for ALL scripts (induction over the op list) and are
derived from the lemmas of `Props/C07` (`min_covered`, `report_dispatch`, `setPersist_max`, `threshold_monotone`,
`step_blocked_iff`, `step_fwd`, `arrive_logOK`, `close_releases_without_delivery`, `min_complete`, `no_lost_wakeup`).
-/
namespace GoDcp.RmE2E
open GoDcp GoDcp.MinSeqNo

/-! ## association lists -/

theorem getV_mem {l : List (Nat × Sys)} {v : Nat} {y : Sys} (h : getV l v = some y) : (v, y) ∈ l := by
  unfold getV at h
  cases hf : l.find? (·.1 == v) with
  | none => simp [hf] at h
  | some p =>
    simp only [hf, Option.map_some, Option.some.injEq] at h
    have hm := List.mem_of_find?_eq_some hf
    have hp := List.find?_some hf
    have : p = (v, y) := by
      cases p with
      | mk a b => simp at hp h; subst hp; subst h; rfl
    exact this ▸ hm

theorem mem_updV {l : List (Nat × Sys)} {v : Nat} {y' : Sys} {w : Nat} {z : Sys} (h : (w, z) ∈ updV l v y') :
    ((w, z) ∈ l ∧ w ≠ v) ∨ (w = v ∧ z = y') := by
  unfold updV at h
  obtain ⟨p, hp, hpe⟩ := List.mem_map.mp h
  by_cases hk : p.1 == v
  · simp only [hk, if_true] at hpe
    right
    cases hpe
    exact ⟨rfl, rfl⟩
  · simp only [hk] at hpe
    left
    subst hpe
    exact ⟨hp, by simpa using hk⟩

theorem getV_cons (p : Nat × Sys) (ps : List (Nat × Sys)) (w : Nat) :
    getV (p :: ps) w = if p.1 == w then some p.2 else getV ps w := by
  unfold getV
  rw [List.find?_cons]
  by_cases h : p.1 == w <;> simp [h]

theorem updV_cons (p : Nat × Sys) (ps : List (Nat × Sys)) (v : Nat) (y' : Sys) :
    updV (p :: ps) v y' = (if p.1 == v then (v, y') else p) :: updV ps v y' := rfl

theorem getV_updV_ne (l : List (Nat × Sys)) (v w : Nat) (y' : Sys) (h : w ≠ v) :
    getV (updV l v y') w = getV l w := by
  induction l with
  | nil => rfl
  | cons p ps ih =>
    rw [updV_cons, getV_cons, getV_cons, ih]
    by_cases hk : p.1 == v
    · have hpv : p.1 = v := by simpa using hk
      have hpw : (p.1 == w) = false := by simp [hpv, Ne.symm h]
      have hvw : (v == w) = false := by simp [Ne.symm h]
      simp [hk, hpw, hvw]
    · simp [hk]

theorem getV_updV_same (l : List (Nat × Sys)) (v : Nat) (y y' : Sys) (h : getV l v = some y) :
    getV (updV l v y') v = some y' := by
  induction l with
  | nil => simp [getV] at h
  | cons p ps ih =>
    rw [getV_cons] at h
    rw [updV_cons, getV_cons]
    by_cases hk : p.1 == v
    · simp [hk]
    · simp only [hk] at h
      have hk' : (p.1 == v) = false := by simpa using hk
      simp only [hk', Bool.false_eq_true, if_false]
      exact ih h

theorem getV_updV_none (l : List (Nat × Sys)) (v : Nat) (y' : Sys) (h : getV l v = none) :
    getV (updV l v y') v = none := by
  induction l with
  | nil => rfl
  | cons p ps ih =>
    rw [getV_cons] at h
    rw [updV_cons, getV_cons]
    by_cases hk : p.1 == v
    · simp [hk] at h
    · simp only [hk] at h
      have hk' : (p.1 == v) = false := by simpa using hk
      simp only [hk', Bool.false_eq_true, if_false]
      exact ih h

theorem getV_updV_isSome (l : List (Nat × Sys)) (v w : Nat) (y' : Sys) :
    (getV (updV l v y') w).isSome = (getV l w).isSome := by
  by_cases h : w = v
  · subst h
    cases hg : getV l w with
    | none => simp [getV_updV_none l w y' hg]
    | some y => simp [getV_updV_same l w y y' hg]
  · rw [getV_updV_ne l v w y' h]

/-- every component satisfies `P` -/
def AllV (P : Nat → Sys → Prop) (l : List (Nat × Sys)) : Prop := ∀ w z, (w, z) ∈ l → P w z

theorem allV_updV {P : Nat → Sys → Prop} {l : List (Nat × Sys)} {v : Nat} {y' : Sys}
    (h : AllV P l) (hy : P v y') : AllV P (updV l v y') := by
  intro w z hm
  rcases mem_updV hm with ⟨hm, _⟩ | ⟨rfl, rfl⟩
  · exact h w z hm
  · exact hy

/-! ## the gate test of the queue goroutine is `Props/C07.blk` -/

theorem held_eq_blk (o : Obs) (e : SrvEv) : held o e = blk o e := by
  have h := step_blocked_iff o e
  unfold held
  cases hb : blk o e with
  | true => rw [h.mpr hb]
  | false =>
    cases ho : (Obs.step gcfg o e).2 with
    | blocked => rw [h.mp ho] at hb; cases hb
    | _ => rfl

/-- a held head: the stream is open and the threshold is below the gate seqno of the event -/
theorem held_iff (o : Obs) (e : SrvEv) :
    held o e = true ↔ ∃ s, gateSeq e = some s ∧ o.persist < s ∧ o.closed = false := by
  rw [held_eq_blk]; exact blk_iff o e

theorem held_congr (o1 o2 : Obs) (e : SrvEv) (hp : o1.persist = o2.persist) (hc : o1.closed = o2.closed) :
    held o1 e = held o2 e := by
  rw [held_eq_blk, held_eq_blk]; exact blk_congr o1 o2 e hp hc

/-! ## what `Sys.step` does to the parts the composition looks at -/

theorem sys_arrive_table (y : Sys) (e : SrvEv) : (y.step (.arrive e)).table = y.table := rfl
theorem sys_arrive_disp (y : Sys) (e : SrvEv) : (y.step (.arrive e)).disp = y.disp := rfl
theorem sys_arrive_attached (y : Sys) (e : SrvEv) : (y.step (.arrive e)).attached = y.attached := rfl
theorem sys_arrive_persist (y : Sys) (e : SrvEv) :
    (y.step (.arrive e)).gate.obs.persist = y.gate.obs.persist := (arrive_obs y.gate e).1
theorem sys_arrive_closed (y : Sys) (e : SrvEv) :
    (y.step (.arrive e)).gate.obs.closed = y.gate.obs.closed := (arrive_obs y.gate e).2

/-- the parts of a component that only its OWN reports and `Close` can change -/
def view (y : Sys) : Table × List Nat × Nat × Bool := (y.table, y.disp, y.gate.obs.persist, y.gate.obs.closed)

theorem view_arrive (y : Sys) (e : SrvEv) : view (y.step (.arrive e)) = view y := by
  simp [view, sys_arrive_table, sys_arrive_disp, sys_arrive_persist, sys_arrive_closed]

/-! ## domination: a table of the mitigation never claims more than the cluster -/

/-- every entry of the cluster table `c` has a partner in the mitigation's table `t` that is either the
    same entry or a listed entry that has not reported yet (seqno 0) -/
def Dom (t c : Table) : Prop :=
  ∀ (i : Nat) (r : Replica), c[i]? = some r → ∃ a : Replica, t[i]? = some a ∧ a.absent = r.absent ∧ (a = r ∨ (a.seq = 0 ∧ a.uuid = 0))

theorem dom_covered {t c : Table} {m : Nat} (hd : Dom t c) (hc : Covered t m) (hm : m ≠ 0) : Covered c m := by
  obtain ⟨u, hu⟩ := hc
  refine ⟨u, fun r hr hra => ?_⟩
  obtain ⟨i, hi⟩ := List.getElem?_of_mem hr
  obtain ⟨a, hai, hab, hcase⟩ := hd i r hi
  have ham : a ∈ t := List.mem_of_getElem? hai
  have := hu a ham (hab.trans hra)
  rcases hcase with rfl | hz
  · exact this
  · have := hz.1; omega

theorem dom_report {t c : Table} {i u s : Nat} (hd : Dom t c) (hl : ∀ r, c[i]? = some r → r.absent = false) :
    Dom (report t i u s).1 (c.set i ⟨u, s, false⟩) := by
  intro j r hj
  by_cases hij : i = j
  · subst hij
    have hlt : i < c.length := by
      cases hlt : decide (i < c.length) with
      | true => exact of_decide_eq_true hlt
      | false =>
        have : ¬ i < c.length := of_decide_eq_false hlt
        rw [List.getElem?_eq_none (by simpa [List.length_set] using this)] at hj
        cases hj
    have hci : c[i]? = some c[i] := List.getElem?_eq_getElem hlt
    rw [List.getElem?_set_self (by simpa using hlt)] at hj
    cases hj
    obtain ⟨a, hai, hab, _⟩ := hd i c[i] hci
    have haf : a.absent = false := hab.trans (hl _ hci)
    unfold report
    rw [hai]
    by_cases ho : isOutdated a u s = true
    · simp only [ho, if_true]
      have hlt' : i < t.length := by
        cases hlt' : decide (i < t.length) with
        | true => exact of_decide_eq_true hlt'
        | false =>
          have : ¬ i < t.length := of_decide_eq_false hlt'
          rw [List.getElem?_eq_none (by simpa using this)] at hai
          cases hai
      refine ⟨{ a with uuid := u, seq := s }, List.getElem?_set_self hlt', haf, Or.inl ?_⟩
      cases a; simp_all
    · simp only [ho]
      refine ⟨a, hai, haf, Or.inl ?_⟩
      have : isOutdated a u s = false := by simpa using ho
      unfold isOutdated at this
      cases a with
      | mk au as aa =>
        simp at haf
        subst haf
        simp at this
        simp [this.1, this.2]
  · rw [List.getElem?_set_ne hij] at hj
    obtain ⟨a, hai, hab, hcase⟩ := hd j r hj
    refine ⟨a, ?_, hab, hcase⟩
    unfold report
    cases hti : t[i]? with
    | none => exact hai
    | some e =>
      simp only
      split
      · rw [List.getElem?_set_ne hij]; exact hai
      · exact hai


/-! ## the start table of an instance (`reset` + `markAbsentInstances`) against the cluster table -/

theorem markAbsent_getElem? (ab : List Nat) (t : Table) (j : Nat) :
    (markAbsent t ab)[j]? = (t[j]?).map fun e => if j ∈ ab then { e with absent := true } else e := by
  induction ab generalizing t with
  | nil => simp [markAbsent]
  | cons i rest ih =>
    have hstep : markAbsent t (i :: rest) =
        markAbsent (match t[i]? with | some e => t.set i { e with absent := true } | none => t) rest := by
      rfl
    rw [hstep, ih]
    cases hti : t[i]? with
    | none =>
      simp only
      by_cases hij : j = i
      · subst hij; simp [hti]
      · cases htj : t[j]? with
        | none => rfl
        | some e => simp [hij]
    | some e0 =>
      simp only
      by_cases hij : j = i
      · subst hij
        have hlt : j < t.length := by
          cases hlt : decide (j < t.length) with
          | true => exact of_decide_eq_true hlt
          | false =>
            have : ¬ j < t.length := of_decide_eq_false hlt
            rw [List.getElem?_eq_none (by simpa using this)] at hti
            cases hti
        rw [List.getElem?_set_self hlt, hti]
        by_cases hr : j ∈ rest <;> simp [hr]
      · rw [List.getElem?_set_ne (Ne.symm hij)]
        cases htj : t[j]? with
        | none => rfl
        | some e => simp [hij]

theorem clusterTable_getElem? (row : List (Option Nat)) (tr : Nat → Nat × Nat) (i : Nat) :
    (clusterTable row tr)[i]? = if i < row.length then some (entryOf row tr i) else none := by
  unfold clusterTable
  rw [List.getElem?_map]
  by_cases h : i < row.length
  · rw [List.getElem?_range h]; simp [h]
  · rw [List.getElem?_eq_none (by simpa using h)]; simp [h]

theorem mem_absentIdx (row : List (Option Nat)) (i : Nat) :
    i ∈ absentIdx row ↔ i < row.length ∧ row.getD i none = none := by
  unfold absentIdx
  rw [List.mem_filter, List.mem_range]
  cases row.getD i none <;> simp

theorem entryOf_absent (row : List (Option Nat)) (tr : Nat → Nat × Nat) (i : Nat) :
    (entryOf row tr i).absent = true ↔ row.getD i none = none := by
  unfold entryOf
  cases row.getD i none <;> simp

/-- the table of a fresh instance is dominated by the cluster table, whatever the copies answer -/
theorem dom_init (row : List (Option Nat)) (tr : Nat → Nat × Nat) :
    Dom (markAbsent (resetTable (row.length - 1)) (absentIdx row)) (clusterTable row tr) := by
  intro i r hi
  rw [clusterTable_getElem?] at hi
  by_cases hlt : i < row.length
  · simp only [hlt, if_true, Option.some.injEq] at hi
    subst hi
    rw [markAbsent_getElem?]
    have hrep : (resetTable (row.length - 1))[i]? = some ({} : Replica) := by
      unfold resetTable
      rw [List.getElem?_replicate]
      have : i < row.length - 1 + 1 := by omega
      simp [this]
    rw [hrep]
    by_cases hab : row.getD i none = none
    · have hm : i ∈ absentIdx row := (mem_absentIdx row i).mpr ⟨hlt, hab⟩
      refine ⟨{ ({} : Replica) with absent := true }, by simp [hm], ?_, Or.inr ⟨rfl, rfl⟩⟩
      simp [(entryOf_absent row tr i).mpr hab]
    · have hm : i ∉ absentIdx row := fun h => hab ((mem_absentIdx row i).mp h).2
      refine ⟨({} : Replica), by simp [hm], ?_, Or.inr ⟨rfl, rfl⟩⟩
      have : (entryOf row tr i).absent ≠ true := fun h => hab ((entryOf_absent row tr i).mp h)
      cases hh : (entryOf row tr i).absent with
      | true => exact absurd hh this
      | false => rfl
  · simp [hlt] at hi

theorem getMin_zero_of_seq_zero (t : Table) (h : ∀ r ∈ t, r.seq = 0) : getMinSeqNo t = 0 := by
  apply Decidable.byContradiction
  intro hne
  obtain ⟨r, hr, _, hrs⟩ := min_attained t hne
  have := h r hr
  omega

theorem markAbsent_seq_zero (ab : List Nat) (t : Table) (h : ∀ r ∈ t, r.seq = 0) :
    ∀ r ∈ markAbsent t ab, r.seq = 0 := by
  intro r hr
  obtain ⟨j, hj⟩ := List.getElem?_of_mem hr
  rw [markAbsent_getElem?] at hj
  cases htj : t[j]? with
  | none => simp [htj] at hj
  | some e =>
    simp only [htj, Option.map_some, Option.some.injEq] at hj
    have he := h e (List.mem_of_getElem? htj)
    subst hj
    split <;> simp [he]

/-! ## the invariant of one component -/

/-- what holds of the component of one vBucket in an open session; `H` = the cluster tables of this vBucket
    seen so far, `c` = its cluster table now -/
structure VInv (H : Table → Prop) (c : Table) (y : Sys) : Prop where
  att : y.attached = true
  /-- a non-zero threshold was covered by a cluster table of this vBucket -/
  thr : y.gate.obs.persist ≠ 0 → ∃ t, H t ∧ Covered t y.gate.obs.persist
  /-- whatever reached the listener passed the gate -/
  log : LogOK y.gate
  dom : Dom y.table c
  /-- no lost dispatch: the threshold is at least the minimum of the table -/
  minle : getMinSeqNo y.table ≤ y.gate.obs.persist

theorem vinv_mono {H H' : Table → Prop} {c : Table} {y : Sys} (hh : ∀ t, H t → H' t) (h : VInv H c y) :
    VInv H' c y :=
  ⟨h.att, fun hp => by obtain ⟨t, ht, hc⟩ := h.thr hp; exact ⟨t, hh t ht, hc⟩, h.log, h.dom, h.minle⟩

theorem vinv_arrive {H : Table → Prop} {c : Table} {y : Sys} (e : SrvEv) (h : VInv H c y) :
    VInv H c (y.step (.arrive e)) := by
  refine ⟨h.att, ?_, arrive_logOK _ e h.log, h.dom, ?_⟩
  · rw [sys_arrive_persist]; exact h.thr
  · rw [sys_arrive_persist]; exact h.minle

theorem vinv_close {H : Table → Prop} {c : Table} {y : Sys} (h : VInv H c y) : VInv H c (y.step .close) :=
  ⟨h.att, h.thr, h.log, h.dom, h.minle⟩

/-- one observe callback with the copy's answer: the new cluster table is `c` with entry `i` replaced -/
theorem vinv_report {H : Table → Prop} {c : Table} {y : Sys} (i u s : Nat) (h : VInv H c y)
    (hl : ∀ r, c[i]? = some r → r.absent = false) (hH : H (c.set i ⟨u, s, false⟩)) :
    VInv H (c.set i ⟨u, s, false⟩) (y.step (.report i u s)) := by
  have hdom := dom_report (u := u) (s := s) h.dom hl
  cases hr : report y.table i u s with
  | mk t' d =>
    rw [hr] at hdom
    cases d with
    | none =>
      have ht : t' = y.table := report_none _ _ _ _ _ hr
      have hst : y.step (.report i u s) = { y with table := t', hist := y.hist ++ [t'] } := by
        simp [Sys.step, hr]
      rw [hst]
      refine ⟨h.att, h.thr, h.log, hdom, ?_⟩
      show getMinSeqNo t' ≤ _
      rw [ht]; exact h.minle
    | some m =>
      have hm : m = getMinSeqNo t' := report_dispatch _ _ _ _ _ _ hr
      have hst : y.step (.report i u s) =
          { y with table := t', gate := y.gate.persist m, hist := y.hist ++ [t'], disp := y.disp ++ [m] } := by
        simp [Sys.step, hr, h.att]
      rw [hst]
      have hmax : (y.gate.obs.setPersist m).persist = max y.gate.obs.persist m := setPersist_max _ _
      refine ⟨h.att, ?_, ?_, hdom, ?_⟩
      · show (y.gate.obs.setPersist m).persist ≠ 0 → ∃ t, H t ∧ Covered t (y.gate.obs.setPersist m).persist
        intro hp
        rw [hmax] at hp ⊢
        rcases Nat.le_total y.gate.obs.persist m with hle | hle
        · rw [Nat.max_eq_right hle] at hp ⊢
          have hcov : Covered t' m := hm ▸ min_covered t' (hm ▸ hp)
          exact ⟨_, hH, dom_covered hdom hcov hp⟩
        · rw [Nat.max_eq_left hle] at hp ⊢
          exact h.thr hp
      · intro p hp x hx q hq
        exact Nat.le_trans (h.log p hp x hx q hq) (threshold_monotone _ _)
      · show getMinSeqNo t' ≤ (y.gate.obs.setPersist m).persist
        rw [hmax, ← hm]; exact Nat.le_max_right _ _

theorem vinv_init (H : Table → Prop) (row : List (Option Nat)) (tr : Nat → Nat × Nat) :
    VInv H (clusterTable row tr) (Sys.init (row.length - 1) (absentIdx row)) := by
  refine ⟨rfl, fun hp => absurd rfl hp, fun p hp => by simp [Sys.init] at hp, dom_init row tr, ?_⟩
  show getMinSeqNo (markAbsent (resetTable (row.length - 1)) (absentIdx row)) ≤ _
  rw [getMin_zero_of_seq_zero]
  · exact Nat.zero_le _
  · apply markAbsent_seq_zero
    intro r hr
    unfold resetTable at hr
    rw [List.eq_of_mem_replicate hr]


theorem vinv_run_reports {H : Table → Prop} {c : Table} (hH : H c) (acts : List Act)
    (hacts : ∀ a ∈ acts, ∃ i u s, a = Act.report i u s ∧ c.set i ⟨u, s, false⟩ = c ∧
      ∀ r, c[i]? = some r → r.absent = false)
    (y : Sys) (h : VInv H c y) : VInv H c (y.run acts) := by
  induction acts generalizing y with
  | nil => exact h
  | cons a as ih =>
    rw [run_cons]
    apply ih (fun b hb => hacts b (List.mem_cons_of_mem _ hb))
    obtain ⟨i, u, s, rfl, hset, hl⟩ := hacts a (List.mem_cons_self ..)
    have := vinv_report i u s h hl (hset.symm ▸ hH)
    rw [hset] at this
    exact this

theorem set_eq_self {α : Type} (l : List α) (i : Nat) (x : α) (h : l[i]? = some x) : l.set i x = l := by
  apply List.ext_getElem?
  intro j
  by_cases hij : i = j
  · subst hij
    have hlt : i < l.length := by
      cases hlt : decide (i < l.length) with
      | true => exact of_decide_eq_true hlt
      | false =>
        have : ¬ i < l.length := of_decide_eq_false hlt
        rw [List.getElem?_eq_none (by simpa using this)] at h
        cases h
    rw [List.getElem?_set_self hlt, h]
  · rw [List.getElem?_set_ne hij]

theorem mem_reportActs (row : List (Option Nat)) (tr : Nat → Nat × Nat) (a : Act) (h : a ∈ reportActs row tr) :
    ∃ i, i < row.length ∧ (∃ n, row.getD i none = some n) ∧ a = Act.report i (tr i).1 (tr i).2 := by
  unfold reportActs at h
  obtain ⟨i, hi, hia⟩ := List.mem_filterMap.mp h
  refine ⟨i, List.mem_range.mp hi, ?_⟩
  cases hr : row.getD i none with
  | none => rw [hr] at hia; cases hia
  | some n =>
    rw [hr] at hia
    simp only [Option.some.injEq] at hia
    exact ⟨⟨n, rfl⟩, hia.symm⟩

/-- a fresh component (`reset`, `markAbsentInstances`, first poll round) satisfies the invariant -/
theorem vinv_initV {H : Table → Prop} (row : List (Option Nat)) (tr : Nat → Nat × Nat)
    (hH : H (clusterTable row tr)) : VInv H (clusterTable row tr) (initV row tr) := by
  unfold initV
  apply vinv_run_reports hH _ _ _ (vinv_init H row tr)
  intro a ha
  obtain ⟨i, hlt, ⟨n, hn⟩, rfl⟩ := mem_reportActs row tr a ha
  have hci : (clusterTable row tr)[i]? = some ⟨(tr i).1, (tr i).2, false⟩ := by
    rw [clusterTable_getElem?, if_pos hlt]
    unfold entryOf
    rw [hn]
  refine ⟨i, (tr i).1, (tr i).2, rfl, set_eq_self _ _ _ hci, ?_⟩
  intro r hr
  rw [hci] at hr
  cases hr
  rfl

/-! ## the queue goroutine keeps every component invariant and ends at a held head -/

theorem drainConn_allV {P : Nat → Sys → Prop} (hP : ∀ v y e, P v y → P v (y.step (.arrive e)))
    (q : Conn) (vbs : List (Nat × Sys)) (h : AllV P vbs) : AllV P (drainConn vbs q).1 := by
  induction q generalizing vbs with
  | nil => exact h
  | cons p rest ih =>
    obtain ⟨v, e⟩ := p
    unfold drainConn
    cases hg : getV vbs v with
    | none => exact ih vbs h
    | some y =>
      simp only
      split
      · exact h
      · exact ih _ (allV_updV h (hP v y e (h v y (getV_mem hg))))

theorem settleConns_allV {P : Nat → Sys → Prop} (hP : ∀ v y e, P v y → P v (y.step (.arrive e)))
    (cs : List (Nat × Conn)) (vbs : List (Nat × Sys)) (h : AllV P vbs) : AllV P (settleConns vbs cs).1 := by
  induction cs generalizing vbs with
  | nil => exact h
  | cons c cs ih =>
    obtain ⟨n, q⟩ := c
    unfold settleConns
    exact ih _ (drainConn_allV hP q vbs h)

/-- the gate state (threshold, closed, table, dispatches) of every vBucket as a function -/
def viewV (vbs : List (Nat × Sys)) (v : Nat) : Option (Table × List Nat × Nat × Bool) := (getV vbs v).map view

theorem viewV_updV_arrive (vbs : List (Nat × Sys)) (v : Nat) (y : Sys) (e : SrvEv) (hg : getV vbs v = some y) (w : Nat) :
    viewV (updV vbs v (y.step (.arrive e))) w = viewV vbs w := by
  unfold viewV
  by_cases h : w = v
  · subst h
    rw [getV_updV_same vbs w y _ hg, hg]
    simp [view_arrive]
  · rw [getV_updV_ne vbs v w _ h]

theorem drainConn_viewV (q : Conn) (vbs : List (Nat × Sys)) (w : Nat) : viewV (drainConn vbs q).1 w = viewV vbs w := by
  induction q generalizing vbs with
  | nil => rfl
  | cons p rest ih =>
    obtain ⟨v, e⟩ := p
    unfold drainConn
    cases hg : getV vbs v with
    | none => exact ih vbs
    | some y =>
      simp only
      split
      · rfl
      · rw [ih, viewV_updV_arrive vbs v y e hg]

theorem settleConns_viewV (cs : List (Nat × Conn)) (vbs : List (Nat × Sys)) (w : Nat) :
    viewV (settleConns vbs cs).1 w = viewV vbs w := by
  induction cs generalizing vbs with
  | nil => rfl
  | cons c cs ih =>
    obtain ⟨n, q⟩ := c
    unfold settleConns
    rw [ih, drainConn_viewV]

/-- the observer of `v` holds `e` (as `drainConn` tests it) -/
def heldV (vbs : List (Nat × Sys)) (v : Nat) (e : SrvEv) : Bool :=
  match getV vbs v with
  | some y => held y.gate.obs e
  | none => false

theorem heldV_of_viewV {vbs vbs' : List (Nat × Sys)} (h : ∀ w, viewV vbs' w = viewV vbs w) (v : Nat) (e : SrvEv) :
    heldV vbs' v e = heldV vbs v e := by
  have hv := h v
  unfold viewV at hv
  unfold heldV
  cases h1 : getV vbs' v with
  | none =>
    cases h2 : getV vbs v with
    | none => rfl
    | some y => simp [h1, h2] at hv
  | some y' =>
    cases h2 : getV vbs v with
    | none => simp [h1, h2] at hv
    | some y =>
      simp only [h1, h2, Option.map_some, Option.some.injEq, view, Prod.mk.injEq] at hv
      exact held_congr _ _ e hv.2.2.1 hv.2.2.2

/-- a queue whose goroutine has nothing to do: empty, or its head is held by its observer -/
def Quiet (vbs : List (Nat × Sys)) : Conn → Prop
  | [] => True
  | (v, e) :: _ => heldV vbs v e = true

theorem drainConn_quiet (q : Conn) (vbs : List (Nat × Sys)) : Quiet (drainConn vbs q).1 (drainConn vbs q).2 := by
  induction q generalizing vbs with
  | nil => trivial
  | cons p rest ih =>
    obtain ⟨v, e⟩ := p
    unfold drainConn
    cases hg : getV vbs v with
    | none => exact ih vbs
    | some y =>
      simp only
      split
      · rename_i hh
        show heldV vbs v e = true
        simp [heldV, hg, hh]
      · exact ih _

theorem quiet_congr {vbs vbs' : List (Nat × Sys)} (h : ∀ w, viewV vbs' w = viewV vbs w) (q : Conn)
    (hq : Quiet vbs q) : Quiet vbs' q := by
  cases q with
  | nil => trivial
  | cons p rest =>
    obtain ⟨v, e⟩ := p
    show heldV vbs' v e = true
    rw [heldV_of_viewV h]; exact hq

/-- **no lost wake-up, connection level**: after `settle` no queue goroutine has work left – every queue is
    empty or its head is an event whose own observer holds it (threshold below its gate seqno, stream open) -/
theorem settleConns_quiet (cs : List (Nat × Conn)) (vbs : List (Nat × Sys)) :
    ∀ c ∈ (settleConns vbs cs).2, Quiet (settleConns vbs cs).1 c.2 := by
  induction cs generalizing vbs with
  | nil => intro c hc; cases hc
  | cons c cs ih =>
    obtain ⟨n, q⟩ := c
    unfold settleConns
    intro c hc
    simp only at hc ⊢
    rcases List.mem_cons.mp hc with rfl | hc
    · exact quiet_congr (fun w => settleConns_viewV cs _ w) _ (drainConn_quiet q vbs)
    · exact ih _ c hc


/-! ## what gets through while the observers are being closed (`Sess.late`) only goes through `arrive` -/

theorem lateConn_pres {P : Sys → Prop} (hP : ∀ y e, P y → P (y.step (.arrive e))) (v q : Nat) (c : Conn)
    (go : Bool) (y : Sys) (h : P y) : P (Sess.lateConn v q go y c).1 := by
  induction c generalizing go y with
  | nil => exact h
  | cons p rest ih =>
    obtain ⟨w, e⟩ := p
    unfold Sess.lateConn
    split
    · split
      · exact ih _ _ (hP y e h)
      · exact ih _ _ h
    · exact ih _ _ h

theorem lateConns_pres {P : Sys → Prop} (hP : ∀ y e, P y → P (y.step (.arrive e))) (v q : Nat)
    (cs : List (Nat × Conn)) (y : Sys) (h : P y) : P (Sess.lateConns v q y cs).1 := by
  induction cs generalizing y with
  | nil => exact h
  | cons c cs ih =>
    obtain ⟨n, c⟩ := c
    unfold Sess.lateConns
    exact ih _ (lateConn_pres hP v q c true y h)

theorem late_allV {P : Nat → Sys → Prop} (hP : ∀ v y e, P v y → P v (y.step (.arrive e))) (s : Sess) (v q : Nat)
    (h : AllV P s.vbs) : AllV P (s.late v q).vbs := by
  unfold Sess.late
  cases hg : getV s.vbs v with
  | none => exact h
  | some y =>
    simp only
    exact allV_updV h (lateConns_pres (hP v) v q s.conns y (h v y (getV_mem hg)))

theorem lates_allV {P : Nat → Sys → Prop} (hP : ∀ v y e, P v y → P v (y.step (.arrive e))) (l : List (Nat × Nat))
    (s : Sess) (h : AllV P s.vbs) : AllV P (s.lates l).vbs := by
  unfold Sess.lates
  induction l generalizing s with
  | nil => exact h
  | cons p ps ih => exact ih _ (late_allV hP s p.1 p.2 h)

/-! ## the cluster table under `SetPersist` -/

theorem getV_none_not_mem {l : List (Nat × Sys)} {v : Nat} (h : getV l v = none) (z : Sys) : (v, z) ∉ l := by
  intro hm
  induction l with
  | nil => cases hm
  | cons p ps ih =>
    rw [getV_cons] at h
    by_cases hk : p.1 == v
    · simp [hk] at h
    · simp only [hk] at h
      rcases List.mem_cons.mp hm with rfl | hm
      · simp at hk
      · exact ih h hm

theorem ans_setTruth (σ : St) (v i u q w j : Nat) :
    (σ.setTruth v i u q).ans w j = if w = v ∧ j = i then (u, q) else σ.ans w j := by
  unfold St.ans St.setTruth
  simp only [List.find?_cons]
  by_cases h : w = v ∧ j = i
  · obtain ⟨rfl, rfl⟩ := h
    simp
  · have : ((v == w) && (i == j)) = false := by
      cases hv : (v == w) with
      | false => rfl
      | true =>
        cases hi : (i == j) with
        | false => rfl
        | true =>
          exfalso
          exact h ⟨(by simpa using hv : v = w).symm, (by simpa using hi : i = j).symm⟩
    simp only [this, h, if_false]

theorem spec_setTruth (σ : St) (v i u q : Nat) : (σ.setTruth v i u q).spec = σ.spec := rfl

theorem ctab_setTruth_ne (σ : St) (v i u q w : Nat) (h : w ≠ v) : (σ.setTruth v i u q).ctab w = σ.ctab w := by
  unfold St.ctab clusterTable
  rw [spec_setTruth]
  apply List.map_congr_left
  intro j _
  unfold entryOf
  rw [ans_setTruth]
  simp [h]

theorem ctab_setTruth_same (σ : St) (v i u q n : Nat) (hn : (rowOf σ.spec v).getD i none = some n) :
    (σ.setTruth v i u q).ctab v = (σ.ctab v).set i ⟨u, q, false⟩ := by
  apply List.ext_getElem?
  intro j
  unfold St.ctab
  rw [spec_setTruth, clusterTable_getElem?]
  by_cases hij : i = j
  · subst hij
    by_cases hlt : i < (rowOf σ.spec v).length
    · rw [List.getElem?_set_self (by simpa [clusterTable] using hlt), if_pos hlt]
      unfold entryOf
      rw [hn, ans_setTruth]
      simp
    · rw [List.getElem?_eq_none (by simpa [clusterTable] using hlt), if_neg hlt]
  · rw [List.getElem?_set_ne hij, clusterTable_getElem?]
    by_cases hlt : j < (rowOf σ.spec v).length
    · simp only [hlt, if_true, Option.some.injEq]
      unfold entryOf
      rw [ans_setTruth]
      have : ¬ (j = i) := fun h => hij h.symm
      simp [this]
    · simp [hlt]

theorem idxOf_some {row : List (Option Nat)} {node i : Nat} (h : idxOf row node = some i) :
    i < row.length ∧ row.getD i none = some node := by
  unfold idxOf at h
  have h1 := List.mem_of_find?_eq_some h
  have h2 := List.find?_some h
  exact ⟨List.mem_range.mp h1, by simpa using h2⟩

/-! ## the invariant of the whole system -/

theorem mem_delivered {g : Gate} {i : Nat} {e : SrvEv} (h : (i, e) ∈ g.delivered) : ∃ x, (i, e, ObsOut.fwd x) ∈ g.log := by
  unfold Gate.delivered at h
  obtain ⟨p, hp, hpe⟩ := List.mem_filterMap.mp h
  obtain ⟨a, b, o⟩ := p
  cases o <;> simp [Gate.fwdOnly] at hpe
  obtain ⟨rfl, rfl⟩ := hpe
  exact ⟨_, hp⟩

/-- what a component handed to the listener was covered by a cluster table of ITS vBucket -/
theorem comp_safe {H : Table → Prop} {c : Table} {y : Sys} (h : VInv H c y) {i : Nat} {e : SrvEv}
    (hd : (i, e) ∈ y.gate.delivered) {s : Nat} (hs : gateSeq e = some s) (hs0 : s ≠ 0) :
    ∃ t, H t ∧ Covered t s := by
  obtain ⟨x, hx⟩ := mem_delivered hd
  have hle : s ≤ y.gate.obs.persist := h.log _ hx x rfl s hs
  obtain ⟨t, ht, hc⟩ := h.thr (by omega)
  exact ⟨t, ht, hc.mono hle⟩

theorem mem_sess_delivered {s : Sess} {v : Nat} {e : SrvEv} (h : (v, e) ∈ s.delivered) :
    ∃ y i, (v, y) ∈ s.vbs ∧ (i, e) ∈ y.gate.delivered := by
  unfold Sess.delivered at h
  obtain ⟨p, hp, hpe⟩ := List.mem_flatMap.mp h
  obtain ⟨d, hd, hde⟩ := List.mem_map.mp hpe
  obtain ⟨w, y⟩ := p
  obtain ⟨i, e'⟩ := d
  simp only [Prod.mk.injEq] at hde
  obtain ⟨rfl, rfl⟩ := hde
  exact ⟨y, i, hp, hd⟩

/-- cluster tables of `v` in the ghost history -/
def HistC (σ : St) (v : Nat) (t : Table) : Prop := (v, t) ∈ σ.chist
/-- … or the one of the state itself (between `core` and `record`) -/
def HistM (σ : St) (v : Nat) (t : Table) : Prop := (v, t) ∈ σ.chist ∨ t = σ.ctab v

def Good (H : Nat → Table → Prop) (σ : St) (v : Nat) (y : Sys) : Prop :=
  v < σ.spec.nvb ∧ VInv (H v) (σ.ctab v) y

def CompsOK (H : Nat → Table → Prop) (σ : St) : Prop := ∀ ss, σ.cur = some ss → AllV (Good H σ) ss.vbs

def PastOK (σ : St) : Prop :=
  ∀ v e, (v, e) ∈ σ.past → ∀ s, gateSeq e = some s → s ≠ 0 → ∃ t, (v, t) ∈ σ.chist ∧ Covered t s

structure InvC (σ : St) : Prop where
  past : PastOK σ
  cur : CompsOK (HistC σ) σ
  recd : ∀ v, v < σ.spec.nvb → (v, σ.ctab v) ∈ σ.chist

structure InvM (σ : St) : Prop where
  past : PastOK σ
  cur : CompsOK (HistM σ) σ

theorem good_arrive {H : Nat → Table → Prop} {σ : St} (v : Nat) (y : Sys) (e : SrvEv) (h : Good H σ v y) :
    Good H σ v (y.step (.arrive e)) := ⟨h.1, vinv_arrive e h.2⟩

theorem settle_good {H : Nat → Table → Prop} {σ : St} (s : Sess) (h : AllV (Good H σ) s.vbs) :
    AllV (Good H σ) s.settle.vbs :=
  settleConns_allV good_arrive s.conns s.vbs h

theorem closeAll_good {H : Nat → Table → Prop} {σ : St} (s : Sess) (h : AllV (Good H σ) s.vbs) :
    AllV (Good H σ) s.closeAll.vbs := by
  unfold Sess.closeAll
  apply settle_good
  intro w z hm
  obtain ⟨p, hp, hpe⟩ := List.mem_map.mp hm
  obtain ⟨a, b⟩ := p
  simp only [Prod.mk.injEq] at hpe
  obtain ⟨rfl, rfl⟩ := hpe
  have := h a b hp
  exact ⟨this.1, vinv_close this.2⟩

theorem mkSess_good (σ σ' : St) (lo hi : Nat) (hs : σ'.spec = σ.spec) (ht : σ'.truth = σ.truth) :
    AllV (Good (HistM σ') σ') (mkSess σ lo hi).vbs := by
  intro w z hm
  unfold mkSess at hm
  obtain ⟨v, hv, hve⟩ := List.mem_map.mp hm
  simp only [Prod.mk.injEq] at hve
  obtain ⟨rfl, rfl⟩ := hve
  have hlt : v < σ.spec.nvb := List.mem_range.mp (List.mem_filter.mp hv).1
  have hct : σ'.ctab v = clusterTable (rowOf σ.spec v) (σ.ans v) := by
    unfold St.ctab St.ans; rw [hs, ht]
  refine ⟨hs ▸ hlt, ?_⟩
  rw [hct]
  exact vinv_initV _ _ (Or.inr hct.symm)

theorem closed_past {σ : St} (s : Sess) (late : List (Nat × Nat)) (hp : PastOK σ) (hg : AllV (Good (HistC σ) σ) s.vbs) :
    ∀ v e, (v, e) ∈ σ.past ++ (s.lates late).closeAll.delivered → ∀ q, gateSeq e = some q → q ≠ 0 →
      ∃ t, (v, t) ∈ σ.chist ∧ Covered t q := by
  intro v e hm q hq hq0
  rcases List.mem_append.mp hm with hm | hm
  · exact hp v e hm q hq hq0
  · obtain ⟨y, i, hy, hd⟩ := mem_sess_delivered hm
    exact comp_safe (closeAll_good _ (lates_allV good_arrive late s hg) v y hy).2 hd hq hq0

theorem good_weaken {σ : St} {v : Nat} {y : Sys} (h : Good (HistC σ) σ v y) : Good (HistM σ) σ v y :=
  ⟨h.1, vinv_mono (fun _ ht => Or.inl ht) h.2⟩

theorem core_inv (σ : St) (a : Step) (h : InvC σ) : InvM (σ.core a) := by
  have hweak : ∀ ss, σ.cur = some ss → AllV (Good (HistM σ) σ) ss.vbs :=
    fun ss hss w z hm => good_weaken (h.cur ss hss w z hm)
  cases a with
  | start =>
    by_cases hst : σ.started = true
    · simp only [St.core, hst, if_true]
      exact ⟨h.past, hweak⟩
    · have hst' : σ.started = false := by simpa using hst
      simp only [St.core, hst', Bool.false_eq_true, if_false]
      refine ⟨h.past, ?_⟩
      intro ss hss
      simp only [Option.some.injEq] at hss
      subst hss
      exact mkSess_good σ _ _ _ rfl rfl
  | push v ms me qs =>
    cases hc : σ.cur with
    | none => simp only [St.core, hc]; exact ⟨h.past, hweak⟩
    | some s =>
      by_cases has : s.assigned v = true
      · cases hn : activeNode σ.spec v with
        | none => simp only [St.core, hc, has, hn, Bool.not_true, Bool.false_eq_true, if_false]; exact ⟨h.past, hweak⟩
        | some n =>
          simp only [St.core, hc, has, hn, Bool.not_true, Bool.false_eq_true, if_false]
          refine ⟨h.past, ?_⟩
          intro ss hss
          simp only [Option.some.injEq] at hss
          subst hss
          exact settle_good _ (hweak s hc)
      · have has' : s.assigned v = false := by simpa using has
        simp only [St.core, hc, has', Bool.not_false, if_true]
        exact ⟨h.past, hweak⟩
  | persist node v u q =>
    cases hi : idxOf (rowOf σ.spec v) node with
    | none => simp only [St.core, hi]; exact ⟨h.past, hweak⟩
    | some i =>
      obtain ⟨hilt, hirow⟩ := idxOf_some hi
      cases hc : σ.cur with
      | none =>
        simp only [St.core, hi, hc]
        refine ⟨h.past, ?_⟩
        intro ss hss
        have : (σ.setTruth v i u q).cur = σ.cur := rfl
        rw [this, hc] at hss
        cases hss
      | some s =>
        simp only [St.core, hi, hc]
        refine ⟨h.past, ?_⟩
        intro ss hss
        simp only [Option.some.injEq] at hss
        subst hss
        -- the state whose cluster table the components are judged against
        let σ' : St := { σ.setTruth v i u q with cur := some ((s.report v i u q).settle) }
        have hctab : ∀ w, σ'.ctab w = (σ.setTruth v i u q).ctab w := fun w => rfl
        show AllV (Good (HistM σ') σ') ((s.report v i u q).settle).vbs
        apply settle_good
        have hold := h.cur s hc
        -- components of other vBuckets: same cluster table, larger history
        have hother : ∀ w z, (w, z) ∈ s.vbs → w ≠ v → Good (HistM σ') σ' w z := by
          intro w z hm hwv
          have hg := hold w z hm
          refine ⟨hg.1, ?_⟩
          rw [hctab, ctab_setTruth_ne σ v i u q w hwv]
          exact vinv_mono (fun _ ht => Or.inl ht) hg.2
        unfold Sess.report
        cases hg : getV s.vbs v with
        | none =>
          simp only
          intro w z hm
          exact hother w z hm (fun hwv => getV_none_not_mem hg z (hwv ▸ hm))
        | some y =>
          simp only
          intro w z hm
          rcases mem_updV hm with ⟨hm, hwv⟩ | ⟨rfl, rfl⟩
          · exact hother w z hm hwv
          · have hgy := hold w y (getV_mem hg)
            refine ⟨hgy.1, ?_⟩
            rw [hctab, ctab_setTruth_same σ w i u q node hirow]
            have hH : HistM σ' w ((σ.ctab w).set i ⟨u, q, false⟩) :=
              Or.inr (by rw [hctab, ctab_setTruth_same σ w i u q node hirow])
            apply vinv_report i u q (vinv_mono (H' := HistM σ' w) (fun _ ht => Or.inl ht) hgy.2) _ hH
            intro r hr
            unfold St.ctab at hr
            rw [clusterTable_getElem?, if_pos hilt] at hr
            cases hr
            unfold entryOf
            rw [hirow]
  | wait =>
    simp only [St.core]
    refine ⟨h.past, ?_⟩
    intro ss hss
    cases hc : σ.cur with
    | none => simp [hc] at hss
    | some s =>
      simp only [hc, Option.map_some, Option.some.injEq] at hss
      subst hss
      exact settle_good _ (hweak s hc)
  | reb m t late =>
    cases hc : σ.cur with
    | none => simp only [St.core, hc]; exact ⟨h.past, hweak⟩
    | some s =>
      simp only [St.core, hc]
      refine ⟨closed_past s late h.past (h.cur s hc), ?_⟩
      intro ss hss
      simp only [Option.some.injEq] at hss
      subst hss
      exact mkSess_good σ _ _ _ rfl rfl
  | close late =>
    cases hc : σ.cur with
    | none => simp only [St.core, hc]; exact ⟨h.past, hweak⟩
    | some s =>
      simp only [St.core, hc]
      refine ⟨closed_past s late h.past (h.cur s hc), ?_⟩
      intro ss hss
      cases hss

theorem record_ctab (σ : St) (v : Nat) : σ.record.ctab v = σ.ctab v := rfl

theorem mem_record_chist (σ : St) (v : Nat) (hv : v < σ.spec.nvb) : (v, σ.ctab v) ∈ σ.record.chist := by
  unfold St.record
  exact List.mem_append_right _ (List.mem_map.mpr ⟨v, List.mem_range.mpr hv, rfl⟩)

theorem record_inv (σ : St) (h : InvM σ) : InvC σ.record := by
  refine ⟨?_, ?_, fun v hv => mem_record_chist σ v hv⟩
  · intro v e hm s hs hs0
    obtain ⟨t, ht, hc⟩ := h.past v e hm s hs hs0
    exact ⟨t, List.mem_append_left _ ht, hc⟩
  · intro ss hss w z hm
    have hg := h.cur ss hss w z hm
    refine ⟨hg.1, ?_⟩
    rw [record_ctab]
    apply vinv_mono _ hg.2
    intro t ht
    rcases ht with ht | rfl
    · exact List.mem_append_left _ ht
    · exact mem_record_chist σ w hg.1

theorem step_inv (σ : St) (a : Step) (h : InvC σ) : InvC (σ.step a) := record_inv _ (core_inv σ a h)

theorem run_cons' (σ : St) (a : Step) (as : List Step) : σ.run (a :: as) = (σ.step a).run as := rfl

theorem run_inv (σ : St) (as : List Step) (h : InvC σ) : InvC (σ.run as) := by
  induction as generalizing σ with
  | nil => exact h
  | cons a as ih => exact ih _ (step_inv σ a h)

theorem init_inv (sp : Spec) : InvC (init sp) := by
  unfold init
  apply record_inv
  refine ⟨?_, ?_⟩
  · intro v e hm
    cases hm
  · intro ss hss
    cases hss

/-- the ghost history is exactly the sequence of cluster tables of the earlier states -/
theorem chist_mem (σ : St) (as : List Step) (v : Nat) (t : Table) (h : (v, t) ∈ (σ.run as).chist) :
    (v, t) ∈ σ.chist ∨ ∃ j, 0 < j ∧ j ≤ as.length ∧ (σ.run (as.take j)).ctab v = t := by
  induction as generalizing σ with
  | nil => left; exact h
  | cons a as ih =>
    rw [run_cons'] at h
    rcases ih (σ.step a) h with h1 | ⟨j, hj0, hj, hjt⟩
    · have : (σ.step a).chist = (σ.core a).chist ++ (List.range (σ.core a).spec.nvb).map fun w => (w, (σ.core a).ctab w) := rfl
      rw [this] at h1
      rcases List.mem_append.mp h1 with h1 | h1
      · left
        have hcore : (σ.core a).chist = σ.chist := by
          cases a <;> simp only [St.core] <;> (repeat' split) <;> rfl
        rw [hcore] at h1
        exact h1
      · right
        obtain ⟨w, _, hw⟩ := List.mem_map.mp h1
        simp only [Prod.mk.injEq] at hw
        obtain ⟨rfl, rfl⟩ := hw
        exact ⟨1, Nat.one_pos, by simp, by simp [St.run, St.step, record_ctab]⟩
    · right
      exact ⟨j + 1, Nat.succ_pos _, by simp; omega, by simpa [List.take_succ_cons, run_cons'] using hjt⟩

theorem init_chist (sp : Spec) (v : Nat) (t : Table) (h : (v, t) ∈ (init sp).chist) : t = (init sp).ctab v := by
  unfold init St.record at h
  simp only [List.nil_append] at h
  obtain ⟨w, _, hw⟩ := List.mem_map.mp h
  simp only [Prod.mk.injEq] at hw
  obtain ⟨rfl, rfl⟩ := hw
  rfl

/-- **e2e_safety** (C07 for the composed system, all scripts).  Whatever the listener has received of vBucket `v`
    with gate seqno `s ≥ 1` (a mutation: its seqno): at some earlier-or-equal step all LISTED copies of `v` answered
    one common vbUUID and each of them a persisted seqno of at least `s`. -/
theorem e2e_safety (sp : Spec) (script : List Step) (v : Nat) (e : SrvEv) (s : Nat)
    (hd : (v, e) ∈ ((init sp).run script).delivered) (hs : gateSeq e = some s) (hs0 : s ≠ 0) :
    ∃ j, j ≤ script.length ∧ Covered (((init sp).run (script.take j)).ctab v) s := by
  have inv := run_inv _ script (init_inv sp)
  have hw : ∃ t, (v, t) ∈ ((init sp).run script).chist ∧ Covered t s := by
    unfold St.delivered at hd
    rcases List.mem_append.mp hd with hd | hd
    · exact inv.past v e hd s hs hs0
    · cases hc : ((init sp).run script).cur with
      | none => simp [hc] at hd
      | some ss =>
        simp only [hc] at hd
        obtain ⟨y, i, hy, hdy⟩ := mem_sess_delivered hd
        exact comp_safe (inv.cur ss hc v y hy).2 hdy hs hs0
  obtain ⟨t, ht, hc⟩ := hw
  rcases chist_mem _ script v t ht with h0 | ⟨j, _, hj, hjt⟩
  · exact ⟨0, Nat.zero_le _, by rw [init_chist sp v t h0] at hc; simpa [St.run] using hc⟩
  · exact ⟨j, hj, hjt ▸ hc⟩


/-! ## isolation: what the gate of `v` lets through is decided by `v`'s own copies -/

/-- steps that can change table / threshold / open-closed of vBucket `v`: a `persist` of one of `v`'s OWN copies,
    and the session-wide steps.  A `persist` of another vBucket, every `push` (also on `v`) and `wait` cannot. -/
def touches (v : Nat) : Step → Bool
  | .persist _ w _ _ => w == v
  | .push .. => false
  | .wait => false
  | _ => true

/-- table, dispatched values, threshold and closed flag of `v` in the open session -/
def St.viewOf (σ : St) (v : Nat) : Option (Table × List Nat × Nat × Bool) :=
  match σ.cur with
  | some s => viewV s.vbs v
  | none => none

theorem settle_viewV (s : Sess) (v : Nat) : viewV s.settle.vbs v = viewV s.vbs v :=
  settleConns_viewV s.conns s.vbs v

theorem record_viewOf (σ : St) (v : Nat) : σ.record.viewOf v = σ.viewOf v := rfl

theorem step_viewOf (σ : St) (a : Step) (v : Nat) (h : touches v a = false) : (σ.step a).viewOf v = σ.viewOf v := by
  unfold St.step
  rw [record_viewOf]
  cases a with
  | start => simp [touches] at h
  | reb m t late => simp [touches] at h
  | close late => simp [touches] at h
  | wait =>
    cases hc : σ.cur with
    | none => simp [St.core, St.viewOf, hc]
    | some s => simp [St.core, St.viewOf, hc, settle_viewV]
  | push w ms me qs =>
    cases hc : σ.cur with
    | none => simp [St.core, St.viewOf, hc]
    | some s =>
      by_cases has : s.assigned w = true
      · cases hn : activeNode σ.spec w with
        | none => simp [St.core, hc, has, hn]
        | some n =>
          simp only [St.core, hc, has, hn, Bool.not_true, Bool.false_eq_true, if_false, St.viewOf]
          rw [settle_viewV]
          rfl
      · have has' : s.assigned w = false := by simpa using has
        simp [St.core, hc, has']
  | persist node w u q =>
    have hwv : v ≠ w := by
      intro hvw
      simp [touches, hvw] at h
    cases hi : idxOf (rowOf σ.spec w) node with
    | none => simp [St.core, hi]
    | some i =>
      cases hc : σ.cur with
      | none => simp [St.core, hi, hc, St.viewOf, St.setTruth]
      | some s =>
        simp only [St.core, hi, hc, St.viewOf]
        rw [settle_viewV]
        unfold Sess.report
        cases hg : getV s.vbs w with
        | none => rfl
        | some y =>
          simp only
          unfold viewV
          rw [getV_updV_ne s.vbs w v _ hwv]

/-- whatever a component handed to the listener is at or below ITS OWN threshold -/
theorem comp_bound {H : Table → Prop} {c : Table} {y : Sys} (h : VInv H c y) {i : Nat} {e : SrvEv}
    (hd : (i, e) ∈ y.gate.delivered) {s : Nat} (hs : gateSeq e = some s) : s ≤ y.gate.obs.persist := by
  obtain ⟨x, hx⟩ := mem_delivered hd
  exact h.log _ hx x rfl s hs

/-- **e2e_vbucket_isolation** (all scripts).
    (1) Table, dispatched values, threshold and closed flag of `v` are untouched by every step that is not a
        `persist` of one of `v`'s own copies or a session-wide step: no other vBucket's persistence, no push and no
        poll round moves `v`'s threshold.
    (2) In every reachable state, an event of `v` that the open session handed to the listener has a gate seqno at or
        below `v`'s OWN threshold; that threshold only moves in `Sys.step (.report …)` of `v`'s own component, to the
        maximum of its old value and `getMinSeqNo` of `v`'s OWN table (`vinv_report`: `setPersist_max`, `report_dispatch`).
    The literal reading "the delivery set of `v` is a function of `v`'s history only" is FALSE on the real code and in
    the model: a held event of another vBucket on the same connection delays `v`'s covered events (`hol_example`). -/
theorem e2e_vbucket_isolation (sp : Spec) (script more : List Step) (v : Nat)
    (hmore : ∀ a ∈ more, touches v a = false) :
    (((init sp).run script).run more).viewOf v = ((init sp).run script).viewOf v ∧
    ∀ s, ((init sp).run script).cur = some s → ∀ y i e q, (v, y) ∈ s.vbs → (i, e) ∈ y.gate.delivered →
      gateSeq e = some q → q ≤ y.gate.obs.persist := by
  constructor
  · generalize (init sp).run script = σ
    induction more generalizing σ with
    | nil => rfl
    | cons a as ih =>
      rw [run_cons', ih (fun b hb => hmore b (List.mem_cons_of_mem _ hb)) (σ.step a),
        step_viewOf σ a v (hmore a (List.mem_cons_self ..))]
  · intro s hc y i e q hy hd hq
    have inv := run_inv _ script (init_inv sp)
    exact comp_bound (inv.cur s hc v y hy).2 hd hq

/-! ## liveness: no lost wake-up through the whole chain -/

/-- no queue goroutine has work left -/
def Settled (σ : St) : Prop := ∀ s, σ.cur = some s → ∀ c ∈ s.conns, Quiet s.vbs c.2

theorem settle_settled (s : Sess) : ∀ c ∈ s.settle.conns, Quiet s.settle.vbs c.2 := settleConns_quiet s.conns s.vbs

theorem mkSess_conns (σ : St) (lo hi : Nat) : ∀ c ∈ (mkSess σ lo hi).conns, c.2 = [] := by
  intro c hc
  unfold mkSess at hc
  obtain ⟨n, _, rfl⟩ := List.mem_map.mp hc
  rfl

theorem step_settled (σ : St) (a : Step) (h : Settled σ) : Settled (σ.step a) := by
  have hq : ∀ (τ : St) lo hi, ∀ c ∈ (mkSess τ lo hi).conns, Quiet (mkSess τ lo hi).vbs c.2 := by
    intro τ lo hi c hc
    rw [mkSess_conns τ lo hi c hc]
    trivial
  intro ss hss
  have hss' : (σ.core a).cur = some ss := hss
  cases a with
  | start =>
    by_cases hst : σ.started = true
    · simp only [St.core, hst, if_true] at hss'
      exact h ss hss'
    · have hst' : σ.started = false := by simpa using hst
      simp only [St.core, hst', Bool.false_eq_true, if_false, Option.some.injEq] at hss'
      subst hss'
      exact hq _ _ _
  | push v ms me qs =>
    cases hc : σ.cur with
    | none => simp [St.core, hc] at hss'
    | some s =>
      by_cases has : s.assigned v = true
      · cases hn : activeNode σ.spec v with
        | none =>
          simp only [St.core, hc, has, hn, Bool.not_true, Bool.false_eq_true, if_false] at hss'
          exact h ss (hc.trans hss')
        | some n =>
          simp only [St.core, hc, has, hn, Bool.not_true, Bool.false_eq_true, if_false, Option.some.injEq] at hss'
          subst hss'
          exact settle_settled _
      · have has' : s.assigned v = false := by simpa using has
        simp only [St.core, hc, has', Bool.not_false, if_true] at hss'
        exact h ss (hc.trans hss')
  | persist node v u q =>
    cases hi : idxOf (rowOf σ.spec v) node with
    | none =>
      simp only [St.core, hi] at hss'
      exact h ss hss'
    | some i =>
      cases hc : σ.cur with
      | none =>
        simp only [St.core, hi, hc] at hss'
        have : (σ.setTruth v i u q).cur = σ.cur := rfl
        rw [this, hc] at hss'
        cases hss'
      | some s =>
        simp only [St.core, hi, hc, Option.some.injEq] at hss'
        subst hss'
        exact settle_settled _
  | wait =>
    cases hc : σ.cur with
    | none => simp [St.core, hc] at hss'
    | some s =>
      simp only [St.core, hc, Option.map_some, Option.some.injEq] at hss'
      subst hss'
      exact settle_settled _
  | reb m t late =>
    cases hc : σ.cur with
    | none => simp [St.core, hc] at hss'
    | some s =>
      simp only [St.core, hc, Option.some.injEq] at hss'
      subst hss'
      exact hq _ _ _
  | close late =>
    cases hc : σ.cur with
    | none => simp [St.core, hc] at hss'
    | some s => simp [St.core, hc] at hss'

theorem run_settled (σ : St) (as : List Step) (h : Settled σ) : Settled (σ.run as) := by
  induction as generalizing σ with
  | nil => exact h
  | cons a as ih => exact ih _ (step_settled σ a h)

theorem init_settled (sp : Spec) : Settled (init sp) := by
  intro s hs
  cases hs

/-- **e2e_liveness_enabled** (all scripts; every step ends after its poll rounds).  If the table of `v` in the open
    session has one common vbUUID among its listed copies (at least one) and each of them has persisted at least `q`,
    then in the state after the step
    (a) the threshold of `v`'s observer is at least `q` (the dispatch was not lost on the way: `observers.Load(v)`),
    (b) `checkPersistSeqNo` succeeds for every event of `v` with gate seqno ≤ `q` (`no_lost_wakeup`), and
    (c) no such event is the head of a connection queue: it went through its observer.  What can still hold it back is
        only a held event of ANOTHER vBucket in front of it on the same connection. -/
theorem e2e_liveness_enabled (sp : Spec) (script : List Step) (s : Sess) (hc : ((init sp).run script).cur = some s)
    (v : Nat) (y : Sys) (hy : getV s.vbs v = some y) (q : Nat) (hcov : Covered y.table q)
    (hl : ∃ r ∈ y.table, r.absent = false) :
    q ≤ y.gate.obs.persist ∧
    (∀ e k, gateSeq e = some k → k ≤ q → Obs.gateOpen gcfg y.gate.obs k = true ∧ held y.gate.obs e = false) ∧
    (∀ c ∈ s.conns, ∀ e rest k, c.2 = (v, e) :: rest → gateSeq e = some k → k ≤ q → False) := by
  have inv := run_inv _ script (init_inv sp)
  have hv := (inv.cur s hc v y (getV_mem hy)).2
  have hq : q ≤ y.gate.obs.persist := Nat.le_trans (min_complete y.table q hl hcov) hv.minle
  have hnot : ∀ e k, gateSeq e = some k → k ≤ q → held y.gate.obs e = false := by
    intro e k hk hkq
    cases hh : held y.gate.obs e with
    | false => rfl
    | true =>
      obtain ⟨k', hk', hlt, _⟩ := (held_iff _ _).mp hh
      rw [hk] at hk'
      cases hk'
      omega
  refine ⟨hq, fun e k hk hkq => ⟨no_lost_wakeup _ _ (Nat.le_trans hkq hq), hnot e k hk hkq⟩, ?_⟩
  intro c hcm e rest k hce hk hkq
  have hset := run_settled _ script (init_settled sp) s hc c hcm
  rw [hce] at hset
  have : heldV s.vbs v e = true := hset
  unfold heldV at this
  rw [hy] at this
  simp [hnot e k hk hkq] at this

/-! ## closing a session releases everything and delivers nothing -/

theorem closed_step_not_fwd (o : Obs) (hc : o.closed = true) (e : SrvEv) :
    held o e = false ∧ ∀ x, (Obs.step gcfg o e).2 ≠ .fwd x := by
  have h := (close_releases_without_delivery o hc).2 e
  refine ⟨?_, h.2⟩
  cases hh : held o e with
  | false => rfl
  | true =>
    obtain ⟨_, _, _, hcl⟩ := (held_iff _ _).mp hh
    simp [hc] at hcl

theorem arrive_closed_delivered (y : Sys) (e : SrvEv) (hc : y.gate.obs.closed = true) :
    (y.step (.arrive e)).gate.delivered = y.gate.delivered := by
  obtain ⟨hh, hf⟩ := closed_step_not_fwd y.gate.obs hc e
  have hb : blk y.gate.obs e = false := by rw [← held_eq_blk]; exact hh
  rcases arrive_spec y.gate e with ⟨hb', _⟩ | ⟨_, heq⟩
  · simp [hb] at hb'
  · show (y.gate.arrive e).delivered = _
    rw [heq]
    unfold Gate.delivered
    simp only [List.filterMap_append, List.filterMap_cons, List.filterMap_nil]
    cases ho : (Obs.step gcfg y.gate.obs e).2 with
    | fwd x => exact absurd ho (hf x)
    | _ => simp [Gate.fwdOnly]

/-- components of a closing session: closed, and nothing delivered beyond what `base` had -/
def ClosedFrom (base : List (Nat × Sys)) (w : Nat) (z : Sys) : Prop :=
  z.gate.obs.closed = true ∧ ∃ z0, (w, z0) ∈ base ∧ z.gate.delivered = z0.gate.delivered

theorem drainConn_closed (base : List (Nat × Sys)) (q : Conn) (vbs : List (Nat × Sys)) (h : AllV (ClosedFrom base) vbs) :
    AllV (ClosedFrom base) (drainConn vbs q).1 ∧ (drainConn vbs q).2 = [] := by
  induction q generalizing vbs with
  | nil => exact ⟨h, rfl⟩
  | cons p rest ih =>
    obtain ⟨v, e⟩ := p
    unfold drainConn
    cases hg : getV vbs v with
    | none => exact ih vbs h
    | some y =>
      simp only
      obtain ⟨hcl, z0, hz0, hdel⟩ := h v y (getV_mem hg)
      rw [(closed_step_not_fwd y.gate.obs hcl e).1]
      simp only [Bool.false_eq_true, if_false]
      apply ih
      apply allV_updV h
      exact ⟨by rw [sys_arrive_closed]; exact hcl, z0, hz0, by rw [arrive_closed_delivered y e hcl]; exact hdel⟩

theorem settleConns_closed (base : List (Nat × Sys)) (cs : List (Nat × Conn)) (vbs : List (Nat × Sys))
    (h : AllV (ClosedFrom base) vbs) :
    AllV (ClosedFrom base) (settleConns vbs cs).1 ∧ ∀ c ∈ (settleConns vbs cs).2, c.2 = [] := by
  induction cs generalizing vbs with
  | nil => exact ⟨h, fun c hc => by cases hc⟩
  | cons c cs ih =>
    obtain ⟨n, q⟩ := c
    unfold settleConns
    obtain ⟨h1, h2⟩ := drainConn_closed base q vbs h
    obtain ⟨h3, h4⟩ := ih _ h1
    refine ⟨h3, ?_⟩
    intro c hc
    simp only at hc
    rcases List.mem_cons.mp hc with rfl | hc
    · exact h2
    · exact h4 c hc

/-- `stream.Close` of a session: every queue is empty afterwards (all waiting and queued calls returned) and no
    component has delivered anything it had not delivered before -/
theorem closeAll_spec (s : Sess) :
    (∀ c ∈ s.closeAll.conns, c.2 = []) ∧ ∀ v e, (v, e) ∈ s.closeAll.delivered → (v, e) ∈ s.delivered := by
  have hbase : AllV (ClosedFrom s.vbs) (s.vbs.map fun p => (p.1, p.2.step .close)) := by
    intro w z hm
    obtain ⟨p, hp, hpe⟩ := List.mem_map.mp hm
    obtain ⟨a, b⟩ := p
    simp only [Prod.mk.injEq] at hpe
    obtain ⟨rfl, rfl⟩ := hpe
    exact ⟨rfl, b, hp, rfl⟩
  obtain ⟨h1, h2⟩ := settleConns_closed s.vbs s.conns _ hbase
  refine ⟨h2, ?_⟩
  intro v e hm
  obtain ⟨y, i, hy, hd⟩ := mem_sess_delivered hm
  obtain ⟨_, z0, hz0, hdel⟩ := h1 v y hy
  unfold Sess.delivered
  rw [hdel] at hd
  exact List.mem_flatMap.mpr ⟨(v, z0), hz0, List.mem_map.mpr ⟨(i, e), hd, rfl⟩⟩

theorem run_reports_log (acts : List Act) (hacts : ∀ a ∈ acts, ∃ i u s, a = Act.report i u s) (y : Sys) :
    (y.run acts).gate.log = y.gate.log := by
  induction acts generalizing y with
  | nil => rfl
  | cons a as ih =>
    rw [run_cons, ih (fun b hb => hacts b (List.mem_cons_of_mem _ hb))]
    obtain ⟨i, u, s, rfl⟩ := hacts a (List.mem_cons_self ..)
    simp only [Sys.step]
    cases report y.table i u s with
    | mk t' d =>
      cases d with
      | none => rfl
      | some m => by_cases ha : y.attached = true <;> simp [ha, Gate.persist]

theorem mkSess_delivered (σ : St) (lo hi : Nat) : (mkSess σ lo hi).delivered = [] := by
  unfold Sess.delivered
  apply List.flatMap_eq_nil_iff.mpr
  intro p hp
  unfold mkSess at hp
  obtain ⟨v, _, rfl⟩ := List.mem_map.mp hp
  have : (initV (rowOf σ.spec v) (σ.ans v)).gate.log = [] := by
    unfold initV
    rw [run_reports_log]
    · rfl
    · intro a ha
      obtain ⟨i, _, _, rfl⟩ := mem_reportActs _ _ a ha
      exact ⟨_, _, _, rfl⟩
  simp [Gate.delivered, this]

/-- what a component delivered beyond `base` passed `base`'s gate: same threshold, and every additional event has a
    gate seqno at or below it -/
def LateOK (base y : Sys) : Prop :=
  y.gate.obs.persist = base.gate.obs.persist ∧
  ∀ i e, (i, e) ∈ y.gate.delivered → (i, e) ∈ base.gate.delivered ∨ ∀ k, gateSeq e = some k → k ≤ base.gate.obs.persist

theorem lateOK_arrive (base y : Sys) (e : SrvEv) (h : LateOK base y) : LateOK base (y.step (.arrive e)) := by
  refine ⟨by rw [sys_arrive_persist]; exact h.1, ?_⟩
  intro i e' hd
  show _ ∨ _
  have hd' : (i, e') ∈ (y.gate.arrive e).delivered := hd
  rcases arrive_spec y.gate e with ⟨_, heq⟩ | ⟨_, heq⟩
  · rw [heq] at hd'
    exact h.2 i e' hd'
  · rw [heq] at hd'
    unfold Gate.delivered at hd'
    simp only [List.filterMap_append, List.filterMap_cons, List.filterMap_nil, List.mem_append] at hd'
    rcases hd' with hd' | hd'
    · exact h.2 i e' hd'
    · cases ho : (Obs.step gcfg y.gate.obs e).2 with
      | fwd x =>
        rw [ho] at hd'
        simp only [Gate.fwdOnly, List.mem_singleton, Prod.mk.injEq] at hd'
        obtain ⟨_, rfl⟩ := hd'
        right
        intro k hk
        rw [← h.1]
        exact (step_fwd y.gate.obs e' x ho).2 k hk
      | _ => rw [ho] at hd'; simp [Gate.fwdOnly] at hd'

/-- components after `lates`: each stems from a component of the session before it -/
def LateFrom (base : List (Nat × Sys)) (w : Nat) (z : Sys) : Prop := ∃ z0, (w, z0) ∈ base ∧ LateOK z0 z

theorem lates_lateFrom (l : List (Nat × Nat)) (s : Sess) : AllV (LateFrom s.vbs) (s.lates l).vbs := by
  apply lates_allV (P := LateFrom s.vbs)
  · intro v y e ⟨z0, hz0, hl⟩
    exact ⟨z0, hz0, lateOK_arrive z0 y e hl⟩
  · intro w z hm
    exact ⟨z, hm, rfl, fun i e hd => Or.inl hd⟩

theorem lates_nil (s : Sess) : s.lates [] = s := rfl

/-- **e2e_close_releases_without_delivery** (every state, every rebalance target, every scheduler choice `late`).
    `close` and `reb` end the open session `s`:
    (1) all its connection queues are empty afterwards – every call that waited at a gate and everything queued behind it
        has returned;
    (2) whatever the listener received during the step (it had not received it before) is an event of a vBucket `v` of `s`
        whose gate seqno was at or below `v`'s OWN threshold when the close began: an event that WAITS at its gate is
        never delivered by closing;
    (3) with the atomic close (`late = []`: all observers closed before a queue goroutine looks again) nothing at all is
        delivered;
    (4) `close` leaves no session; the session a rebalance opens starts with empty queues and has delivered nothing. -/
theorem e2e_close_releases_without_delivery (σ : St) (s : Sess) (hc : σ.cur = some s) (late : List (Nat × Nat)) :
    (∀ c ∈ (s.lates late).closeAll.conns, c.2 = []) ∧
    (∀ v e, (v, e) ∈ (s.lates late).closeAll.delivered → (v, e) ∈ s.delivered ∨
      ∃ y, (v, y) ∈ s.vbs ∧ ∀ k, gateSeq e = some k → k ≤ y.gate.obs.persist) ∧
    (∀ v e, (v, e) ∈ (σ.step (.close [])).delivered → (v, e) ∈ σ.delivered) ∧
    (σ.step (.close late)).cur = none ∧
    (σ.step (.close late)).delivered = σ.past ++ (s.lates late).closeAll.delivered ∧
    ∀ m t, (∀ v e, (v, e) ∈ (σ.step (.reb m t [])).delivered → (v, e) ∈ σ.delivered) ∧
      (σ.step (.reb m t late)).delivered = σ.past ++ (s.lates late).closeAll.delivered ∧
      ∃ s', (σ.step (.reb m t late)).cur = some s' ∧ (∀ c ∈ s'.conns, c.2 = []) ∧ s'.delivered = [] := by
  obtain ⟨h1, h2⟩ := closeAll_spec (s.lates late)
  obtain ⟨_, h20⟩ := closeAll_spec s
  have hdel0 : ∀ v e, (v, e) ∈ σ.past ++ s.closeAll.delivered → (v, e) ∈ σ.delivered := by
    intro v e hm
    unfold St.delivered
    rw [hc]
    rcases List.mem_append.mp hm with hm | hm
    · exact List.mem_append_left _ hm
    · exact List.mem_append_right _ (h20 v e hm)
  refine ⟨h1, ?_, ?_, ?_, ?_, ?_⟩
  · intro v e hm
    obtain ⟨y, i, hy, hd⟩ := mem_sess_delivered (h2 v e hm)
    obtain ⟨z0, hz0, hl⟩ := lates_lateFrom late s v y hy
    rcases hl.2 i e hd with hold | hcov
    · left
      unfold Sess.delivered
      exact List.mem_flatMap.mpr ⟨(v, z0), hz0, List.mem_map.mpr ⟨(i, e), hold, rfl⟩⟩
    · exact Or.inr ⟨z0, hz0, hcov⟩
  · intro v e hm
    have : (σ.step (.close [])).delivered = σ.past ++ s.closeAll.delivered ++ [] := by
      simp [St.step, St.core, hc, St.record, St.delivered, lates_nil]
    rw [this, List.append_nil] at hm
    exact hdel0 v e hm
  · simp [St.step, St.core, hc, St.record]
  · simp [St.step, St.core, hc, St.record, St.delivered]
  · intro m t
    refine ⟨?_, ?_, mkSess σ (rangeOf σ m t).1 (rangeOf σ m t).2, by simp [St.step, St.core, hc, St.record],
      mkSess_conns _ _ _, mkSess_delivered _ _ _⟩
    · intro v e hm
      have : (σ.step (.reb m t [])).delivered =
          σ.past ++ s.closeAll.delivered ++ (mkSess σ (rangeOf σ m t).1 (rangeOf σ m t).2).delivered := by
        simp [St.step, St.core, hc, St.record, St.delivered, lates_nil]
      rw [this, mkSess_delivered, List.append_nil] at hm
      exact hdel0 v e hm
    · have : (σ.step (.reb m t late)).delivered =
          σ.past ++ (s.lates late).closeAll.delivered ++ (mkSess σ (rangeOf σ m t).1 (rangeOf σ m t).2).delivered := by
        simp [St.step, St.core, hc, St.record, St.delivered]
      rw [this, mkSess_delivered, List.append_nil]

/-! ## the table of the mitigation IS the cluster table at the end of every step -/

theorem report_length (t : Table) (i u s : Nat) : (report t i u s).1.length = t.length := by
  unfold report
  cases t[i]? with
  | none => rfl
  | some e => simp only; split <;> simp

/-- one valid report makes entry `k` agree with the cluster table and keeps every agreement -/
theorem report_agree {t c : Table} {k u s : Nat} (hd : Dom t c) (hk : c[k]? = some ⟨u, s, false⟩) :
    ((report t k u s).1 : Table)[k]? = c[k]? ∧ ∀ i : Nat, t[i]? = c[i]? → ((report t k u s).1 : Table)[i]? = c[i]? := by
  obtain ⟨a, hak, hab, _⟩ := hd k _ hk
  have haf : a.absent = false := hab
  have hlt : k < t.length := by
    cases hlt : decide (k < t.length) with
    | true => exact of_decide_eq_true hlt
    | false =>
      have : ¬ k < t.length := of_decide_eq_false hlt
      rw [List.getElem?_eq_none (by simpa using this)] at hak
      cases hak
  have hfirst : ((report t k u s).1 : Table)[k]? = c[k]? := by
    unfold report
    rw [hak, hk]
    by_cases ho : isOutdated a u s = true
    · simp only [ho, if_true]
      rw [List.getElem?_set_self hlt]
      cases a; simp_all
    · simp only [ho]
      have : isOutdated a u s = false := by simpa using ho
      unfold isOutdated at this
      cases a with
      | mk au as aa =>
        simp at haf
        subst haf
        simp at this
        simp only [Bool.false_eq_true, if_false]
        rw [hak, this.1, this.2]
  refine ⟨hfirst, fun i hi => ?_⟩
  by_cases hik : k = i
  · subst hik; exact hfirst
  · unfold report
    rw [hak]
    simp only
    split
    · rw [List.getElem?_set_ne hik]; exact hi
    · exact hi

/-- the table part of a run of reports -/
theorem run_reports_table {c : Table} (acts : List Act)
    (hacts : ∀ a ∈ acts, ∃ i u s, a = Act.report i u s ∧ c[i]? = some ⟨u, s, false⟩)
    (y : Sys) (hd : Dom y.table c) (done : List Nat) (hdone : ∀ i : Nat, i ∈ done → y.table[i]? = c[i]?) :
    Dom (y.run acts).table c ∧ (y.run acts).table.length = y.table.length ∧
    (∀ i : Nat, i ∈ done → (y.run acts).table[i]? = c[i]?) ∧
    ∀ a ∈ acts, ∀ i u s : Nat, a = Act.report i u s → (y.run acts).table[i]? = c[i]? := by
  induction acts generalizing y done with
  | nil => exact ⟨hd, rfl, hdone, fun a ha => by cases ha⟩
  | cons a as ih =>
    obtain ⟨k, u, s, rfl, hk⟩ := hacts _ (List.mem_cons_self ..)
    have htab : (y.step (.report k u s)).table = (report y.table k u s).1 := by
      simp only [Sys.step]
      cases report y.table k u s with
      | mk t' d =>
        cases d with
        | none => rfl
        | some m => by_cases ha : y.attached = true <;> simp [ha]
    have hset : c.set k ⟨u, s, false⟩ = c := set_eq_self _ _ _ hk
    have hd' : Dom (y.step (.report k u s)).table c := by
      rw [htab]
      have := dom_report (u := u) (s := s) hd (fun r hr => by rw [hk] at hr; cases hr; rfl)
      rwa [hset] at this
    obtain ⟨hag1, hag2⟩ := report_agree hd hk
    have hdone' : ∀ i : Nat, i ∈ k :: done → (y.step (.report k u s)).table[i]? = c[i]? := by
      intro i hi
      rw [htab]
      rcases List.mem_cons.mp hi with rfl | hi
      · exact hag1
      · exact hag2 i (hdone i hi)
    obtain ⟨h1, h2, h3, h4⟩ := ih (fun b hb => hacts b (List.mem_cons_of_mem _ hb)) _ hd' (k :: done) hdone'
    rw [run_cons]
    refine ⟨h1, by rw [h2, htab, report_length], fun i hi => h3 i (List.mem_cons_of_mem _ hi), ?_⟩
    intro b hb i u' s' hbe
    rcases List.mem_cons.mp hb with rfl | hb
    · cases hbe
      exact h3 _ (List.mem_cons_self ..)
    · exact h4 b hb i u' s' hbe

theorem markAbsent_length (ab : List Nat) (t : Table) : (markAbsent t ab).length = t.length := by
  have h : ∀ j : Nat, (markAbsent t ab)[j]? = none ↔ t[j]? = none := by
    intro j
    rw [markAbsent_getElem?]
    cases t[j]? <;> simp
  rcases Nat.lt_trichotomy (markAbsent t ab).length t.length with hlt | heq | hgt
  · have := (h (markAbsent t ab).length).mp (List.getElem?_eq_none (Nat.le_refl _))
    rw [List.getElem?_eq_none_iff] at this
    omega
  · exact heq
  · have := (h t.length).mpr (List.getElem?_eq_none (Nat.le_refl _))
    rw [List.getElem?_eq_none_iff] at this
    omega

/-- **table sync**: after `reset`, `markAbsentInstances` and one poll round that reached every listed copy, the
    table of a vBucket with a non-empty row is exactly the cluster table -/
theorem initV_table (row : List (Option Nat)) (tr : Nat → Nat × Nat) (hne : row ≠ []) :
    (initV row tr).table = clusterTable row tr := by
  have hpos : 0 < row.length := List.length_pos_iff.mpr hne
  have hacts : ∀ a ∈ reportActs row tr, ∃ i u s, a = Act.report i u s ∧ (clusterTable row tr)[i]? = some ⟨u, s, false⟩ := by
    intro a ha
    obtain ⟨i, hlt, ⟨n, hn⟩, rfl⟩ := mem_reportActs row tr a ha
    refine ⟨i, _, _, rfl, ?_⟩
    rw [clusterTable_getElem?, if_pos hlt]
    unfold entryOf
    rw [hn]
  obtain ⟨hdom, hlen, _, hag⟩ := run_reports_table (reportActs row tr) hacts
    (Sys.init (row.length - 1) (absentIdx row)) (dom_init row tr) [] (fun i hi => by cases hi)
  have hlen0 : (Sys.init (row.length - 1) (absentIdx row)).table.length = row.length := by
    show (markAbsent (resetTable (row.length - 1)) (absentIdx row)).length = _
    rw [markAbsent_length]
    unfold resetTable
    rw [List.length_replicate]
    omega
  unfold initV
  apply List.ext_getElem?
  intro j
  by_cases hj : j < row.length
  · cases hr : row.getD j none with
    | some n =>
      -- a listed copy: it has reported
      have hmem : Act.report j (tr j).1 (tr j).2 ∈ reportActs row tr := by
        unfold reportActs
        apply List.mem_filterMap.mpr
        exact ⟨j, List.mem_range.mpr hj, by rw [hr]⟩
      exact hag _ hmem j _ _ rfl
    | none =>
      -- an unlisted index: both entries are the absent zero entry
      have hcj : (clusterTable row tr)[j]? = some ⟨0, 0, true⟩ := by
        rw [clusterTable_getElem?, if_pos hj]
        unfold entryOf
        rw [hr]
      obtain ⟨a, haj, hab, hcase⟩ := hdom j _ hcj
      rw [haj, hcj]
      rcases hcase with rfl | ⟨h1, h2⟩
      · rfl
      · cases a with
        | mk au as aa =>
          simp at hab h1 h2
          subst hab; subst h1; subst h2
          rfl
  · rw [List.getElem?_eq_none (by rw [hlen, hlen0]; omega), clusterTable_getElem?, if_neg hj]

/-- one report with the copy's new answer keeps table = cluster table -/
theorem report_sync {c : Table} {i u s : Nat} (hl : ∀ r, c[i]? = some r → r.absent = false) :
    (report c i u s).1 = c.set i ⟨u, s, false⟩ := by
  unfold report
  cases hci : c[i]? with
  | none =>
    simp only
    apply List.ext_getElem?
    intro j
    by_cases hij : i = j
    · subst hij
      rw [hci, List.getElem?_eq_none]
      rw [List.length_set]
      exact List.getElem?_eq_none_iff.mp hci
    · rw [List.getElem?_set_ne hij]
  | some e =>
    have hef : e.absent = false := hl e hci
    simp only
    by_cases ho : isOutdated e u s = true
    · simp only [ho, if_true]
      congr 1
      cases e; simp_all
    · simp only [ho]
      have : isOutdated e u s = false := by simpa using ho
      unfold isOutdated at this
      cases e with
      | mk au as aa =>
        simp at hef
        subst hef
        simp at this
        rw [this.1, this.2] at hci
        exact (set_eq_self _ _ _ hci).symm

/-- every component of the open session carries the cluster table of its vBucket -/
def Synced (σ : St) : Prop := ∀ s, σ.cur = some s → ∀ v y, (v, y) ∈ s.vbs → y.table = σ.ctab v

def TabIs (f : Nat → Table) (v : Nat) (y : Sys) : Prop := y.table = f v

theorem settle_tabIs (f : Nat → Table) (s : Sess) (h : AllV (TabIs f) s.vbs) : AllV (TabIs f) s.settle.vbs :=
  settleConns_allV (fun _ _ _ hy => hy) s.conns s.vbs h

theorem mkSess_synced (σ : St) (lo hi : Nat) : AllV (TabIs σ.ctab) (mkSess σ lo hi).vbs := by
  intro w z hm
  unfold mkSess at hm
  obtain ⟨v, hv, hve⟩ := List.mem_map.mp hm
  simp only [Prod.mk.injEq] at hve
  obtain ⟨rfl, rfl⟩ := hve
  have hne : rowOf σ.spec v ≠ [] := by
    have := (List.mem_filter.mp hv).2
    intro h
    simp [h] at this
  exact initV_table _ _ hne

theorem step_synced (σ : St) (a : Step) (h : Synced σ) : Synced (σ.step a) := by
  intro ss hss
  have hss' : (σ.core a).cur = some ss := hss
  show AllV (TabIs (σ.core a).ctab) ss.vbs
  cases a with
  | start =>
    by_cases hst : σ.started = true
    · simp only [St.core, hst, if_true] at hss' ⊢
      exact h ss hss'
    · have hst' : σ.started = false := by simpa using hst
      simp only [St.core, hst', Bool.false_eq_true, if_false, Option.some.injEq] at hss' ⊢
      subst hss'
      exact mkSess_synced σ _ _
  | push v ms me qs =>
    cases hc : σ.cur with
    | none => simp [St.core, hc] at hss'
    | some s =>
      by_cases has : s.assigned v = true
      · cases hn : activeNode σ.spec v with
        | none =>
          simp only [St.core, hc, has, hn, Bool.not_true, Bool.false_eq_true, if_false] at hss' ⊢
          exact h ss (hc.trans hss')
        | some n =>
          simp only [St.core, hc, has, hn, Bool.not_true, Bool.false_eq_true, if_false, Option.some.injEq] at hss' ⊢
          subst hss'
          exact settle_tabIs _ _ (h s hc)
      · have has' : s.assigned v = false := by simpa using has
        simp only [St.core, hc, has', Bool.not_false, if_true] at hss' ⊢
        exact h ss (hc.trans hss')
  | persist node v u q =>
    cases hi : idxOf (rowOf σ.spec v) node with
    | none =>
      simp only [St.core, hi] at hss' ⊢
      exact h ss hss'
    | some i =>
      obtain ⟨hilt, hirow⟩ := idxOf_some hi
      cases hc : σ.cur with
      | none =>
        simp only [St.core, hi, hc] at hss'
        have : (σ.setTruth v i u q).cur = σ.cur := rfl
        rw [this, hc] at hss'
        cases hss'
      | some s =>
        simp only [St.core, hi, hc, Option.some.injEq] at hss' ⊢
        subst hss'
        have hct : ∀ w, ({ σ.setTruth v i u q with cur := some ((s.report v i u q).settle) } : St).ctab w =
            (σ.setTruth v i u q).ctab w := fun w => rfl
        apply settle_tabIs
        have hold := h s hc
        have hother : ∀ w z, (w, z) ∈ s.vbs → w ≠ v →
            TabIs ({ σ.setTruth v i u q with cur := some ((s.report v i u q).settle) } : St).ctab w z := by
          intro w z hm hwv
          show z.table = (σ.setTruth v i u q).ctab w
          rw [ctab_setTruth_ne σ v i u q w hwv]
          exact hold w z hm
        unfold Sess.report
        cases hg : getV s.vbs v with
        | none =>
          simp only
          intro w z hm
          exact hother w z hm (fun hwv => getV_none_not_mem hg z (hwv ▸ hm))
        | some y =>
          simp only
          intro w z hm
          rcases mem_updV hm with ⟨hm, hwv⟩ | ⟨rfl, rfl⟩
          · exact hother w z hm hwv
          · show (y.step (.report i u q)).table = (σ.setTruth w i u q).ctab w
            rw [ctab_setTruth_same σ w i u q node hirow]
            have hy : y.table = σ.ctab w := hold w y (getV_mem hg)
            have htab : (y.step (.report i u q)).table = (report y.table i u q).1 := by
              simp only [Sys.step]
              cases report y.table i u q with
              | mk t' d =>
                cases d with
                | none => rfl
                | some m => by_cases ha : y.attached = true <;> simp [ha]
            rw [htab, hy]
            apply report_sync
            intro r hr
            unfold St.ctab at hr
            rw [clusterTable_getElem?, if_pos hilt] at hr
            cases hr
            unfold entryOf
            rw [hirow]
  | wait =>
    cases hc : σ.cur with
    | none => simp [St.core, hc] at hss'
    | some s =>
      simp only [St.core, hc, Option.map_some, Option.some.injEq] at hss' ⊢
      subst hss'
      exact settle_tabIs _ _ (h s hc)
  | reb m t late =>
    cases hc : σ.cur with
    | none => simp [St.core, hc] at hss'
    | some s =>
      simp only [St.core, hc, Option.some.injEq] at hss' ⊢
      subst hss'
      exact mkSess_synced σ _ _
  | close late =>
    cases hc : σ.cur with
    | none => simp [St.core, hc] at hss'
    | some s => simp [St.core, hc] at hss'

/-- **e2e_table_sync** (all scripts): at the end of every step the table the mitigation holds for an assigned
    vBucket is exactly what the listed copies of that vBucket answer – so "`v`'s table covers `s`" in
    `e2e_liveness_enabled` means: every listed copy of `v` has persisted `s` under one vbUUID -/
theorem e2e_table_sync (sp : Spec) (script : List Step) (s : Sess) (hc : ((init sp).run script).cur = some s)
    (v : Nat) (y : Sys) (hy : (v, y) ∈ s.vbs) : y.table = ((init sp).run script).ctab v := by
  have : Synced ((init sp).run script) := by
    generalize hσ : init sp = σ
    have h0 : Synced σ := by
      subst hσ
      intro s hs
      cases hs
    clear hσ hc
    induction script generalizing σ with
    | nil => exact h0
    | cons a as ih => exact ih _ (step_synced σ a h0)
  exact this s hc v y hy

/-! ## the monitor accepts the model's own output -/

open GoDcp.Driver.E2Ed in
theorem checkAux_model (eph : Bool) (ms : List Tok) (prev : St) (σs : List (St × Step)) :
    checkAux eph prev σs ms (ms.map showTok) = none := by
  induction ms generalizing prev σs with
  | nil => cases σs <;> rfl
  | cons m ms ih =>
    cases σs with
    | nil => simp [checkAux, ih]
    | cons σ σs =>
      obtain ⟨σ, a⟩ := σ
      simp [checkAux, ih]

open GoDcp.Driver.E2Ed in
/-- **e2eCheck_model**: for every cluster and script the model's own observation passes the monitor -/
theorem e2eCheck_model (sp : Spec) (steps : List Step) : check sp steps ((modelToks sp steps).map showTok) = none :=
  checkAux_model _ _ _ _


/-! ## examples (non-vacuity) -/

/-- 2 KV nodes, 4 vBuckets, 1 replica; vBuckets 0 and 1 stream from node 0, vBuckets 2 and 3 from node 1 -/
def exSpec : Spec :=
  { kv := 2, nvb := 4, rows := [[some 0, some 1], [some 0, some 1], [some 1, some 0], [some 1, some 0]] }

def exHol : List Step :=
  [.start, .push 0 1 3 [1, 2, 3], .push 1 1 2 [1, 2], .persist 0 1 5 2, .persist 1 1 5 2]

/-- **hol_example** (head-of-line blocking, also on the real code: directed case 1 of stream `c07e2e`).  Both copies of
    vBucket 1 have persisted seqno 2 under one vbUUID and the threshold of vBucket 1 is 2, yet its mutations 1 and 2
    are not delivered: mutation 1 of vBucket 0 is held at ITS gate on the same connection.  Without the push on
    vBucket 0 the same history of vBucket 1 delivers both; once the copies of vBucket 0 persist, everything arrives. -/
theorem hol_example :
    ((init exSpec).run exHol).thr 1 = 2 ∧
    ((init exSpec).run exHol).delivered = [] ∧
    ((init exSpec).run [.start, .push 1 1 2 [1, 2], .persist 0 1 5 2, .persist 1 1 5 2]).delivered
      = [(1, .marker 1 2), (1, docEv 1), (1, docEv 2)] ∧
    ((init exSpec).run (exHol ++ [.persist 0 0 5 3, .persist 1 0 5 3])).delivered
      = [(0, .marker 1 3), (0, docEv 1), (0, docEv 2), (0, docEv 3), (1, .marker 1 2), (1, docEv 1), (1, docEv 2)] := by
  decide

/-- non-vacuity of `e2e_safety` / `e2e_liveness_enabled`: a delivered mutation; the table of vBucket 1 covers 2 and has
    listed copies; a queue with a held head -/
example :
    (0, docEv 2) ∈ ((init exSpec).run (exHol ++ [.persist 0 0 5 2, .persist 1 0 5 2])).delivered ∧
    (((init exSpec).run exHol).cur.map fun s =>
        ((getV s.vbs 1).map (fun y => (coveredB y.table 2, y.table)), s.heldDocs.length)) =
      some (some (true, [⟨5, 2, false⟩, ⟨5, 2, false⟩]), 5) := by
  decide

/-- non-vacuity of `e2e_close_releases_without_delivery`: five parked mutations are released by `close` / a rebalance
    and never reach the listener, also when their copies persist afterwards -/
example :
    let σ := (init { exSpec with dyn := true }).run exHol
    (σ.step (.close [])).delivered = [] ∧ (σ.step (.close [])).cur = none ∧
    (((σ.step (.reb 1 1 [])).run [.persist 0 0 5 9, .persist 1 0 5 9, .wait]).delivered = []) ∧
    (((σ.step (.reb 1 1 [])).run [.persist 0 0 5 9, .persist 1 0 5 9, .wait]).thr 0 = 9) ∧
    -- the observer of vBucket 0 is closed first and the queue goroutine runs before vBucket 1's is closed: the covered
    -- mutations 1, 2 of vBucket 1 get through; the waiting mutation 1 of vBucket 0 never does, whatever is claimed
    (σ.step (.close [(1, 2)])).delivered = [(1, .marker 1 2), (1, docEv 1), (1, docEv 2)] ∧
    (σ.step (.close [(0, 3), (1, 1)])).delivered = [(1, .marker 1 2), (1, docEv 1)] := by
  decide

/-- non-vacuity of `e2e_vbucket_isolation`: the copies of vBuckets 0, 2, 3 persist, vBucket 1 is pushed to: the threshold
    of vBucket 1 stays 0 and nothing of vBucket 1 is delivered -/
example :
    let σ := (init exSpec).run [.start, .push 1 1 2 [1, 2], .persist 0 0 5 9, .persist 1 0 5 9, .persist 0 2 5 9,
      .persist 1 2 5 9, .persist 0 3 5 9, .persist 1 3 5 9, .wait]
    σ.thr 1 = 0 ∧ σ.thr 0 = 9 ∧ σ.thr 2 = 9 ∧ σ.delivered = [] := by
  decide

end GoDcp.RmE2E
