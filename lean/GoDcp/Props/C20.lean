import GoDcp.Model.AsyncOp
import GoDcp.Spec.C20
/-!
# C20 (L0 part) — no Couchbase call can hang or invent an outcome

Theorems about the `asyncOp` / wrapper-pattern LTS of `Model/AsyncOp.lean`, for
**all** action lists (= all schedules, all server behaviours, all deadlines,
all payloads), no bound.

Reading guide

 * `Inv…`                      the inductive invariant (waiter side needs no hypothesis; the
                               server side is stated under gocbcore's `AtMostOnce`)
 * `returns_by_deadline` …     progress once the deadline has passed
 * `outcome_sound`             the wrapper's return value is the server's outcome or an error
 * `never_success_unconfirmed` generic wrapper; `…_refuted_for_seqnos` (F7); `…_partial` over the table
 * `late_completion_harmless`  completion after a time-out neither blocks nor changes anything visible
 * `cancel_on_timeout`         silent server ⇒ `op.Cancel()` exactly once and an error
 * `holds_of_run`              every run satisfies the run-time monitor `Spec.C20.holds`
-/
namespace GoDcp.AsyncOp
open GoDcp.Spec.C20

macro "ao_step_cases " h:ident : tactic =>
  `(tactic| (unfold step at $h:ident; (repeat' split at $h:ident) <;> (first | (cases $h:ident) | skip)))

/-! ## runs -/

theorem run_nil (s : State) : run s [] = s := rfl

theorem run_cons (s : State) (a : Action) (acts : List Action) :
    run s (a :: acts) = run (stepD s a) acts := rfl

theorem run_append (s : State) (xs ys : List Action) : run s (xs ++ ys) = run (run s xs) ys := by
  simp [run, List.foldl_append]

theorem stepD_eq_of_step {s s' : State} {a : Action} (h : step s a = some s') : stepD s a = s' := by
  simp [stepD, h]

theorem stepD_cases (s : State) (a : Action) : (stepD s a = s ∧ step s a = none) ∨ step s a = some (stepD s a) := by
  unfold stepD
  cases h : step s a <;> simp

/-- a property preserved by every enabled step holds along every run -/
theorem run_induction {P : State → Prop} (hstep : ∀ s a s', P s → step s a = some s' → P s')
    (s : State) (acts : List Action) (h : P s) : P (run s acts) := by
  induction acts generalizing s with
  | nil => exact h
  | cons a acts ih =>
    rw [run_cons]
    apply ih
    rcases stepD_cases s a with ⟨he, _⟩ | hs
    · rw [he]; exact h
    · exact hstep _ _ _ h hs

/-! ## static fields -/

theorem static_step {s s' : State} {a : Action} (h : step s a = some s') :
    s'.shape = s.shape ∧ s'.imm = s.imm ∧ s'.deadline = s.deadline := by
  ao_step_cases h
  all_goals (first | (exact ⟨rfl, rfl, rfl⟩) | (split <;> exact ⟨rfl, rfl, rfl⟩))

theorem static_run (s : State) (acts : List Action) :
    (run s acts).shape = s.shape ∧ (run s acts).imm = s.imm ∧ (run s acts).deadline = s.deadline := by
  refine run_induction (P := fun t => t.shape = s.shape ∧ t.imm = s.imm ∧ t.deadline = s.deadline)
    ?_ s acts ⟨rfl, rfl, rfl⟩
  intro t a t' ht h
  have := static_step h
  exact ⟨this.1.trans ht.1, this.2.1.trans ht.2.1, this.2.2.trans ht.2.2⟩

/-! ## `ctx.Err()` is sticky -/

theorem ctxErrOf_mono {c : Bool} {d : Option Nat} {n : Nat} {e : CtxErr}
    (he : ctxErrOf c d n = some e) : ctxErrOf c d (n + 1) = some e := by
  unfold ctxErrOf at *
  cases c <;> simp only [Bool.false_eq_true, if_false, if_true] at he ⊢
  · cases d <;> simp only at he ⊢
    · simp at he
    · rename_i d
      by_cases h : d ≤ n
      · have : d ≤ n + 1 := by omega
        simp_all
      · simp [h] at he
  · exact he

/-- once `ctx.Err()` is non-nil it keeps its value (Go: the first cause wins) -/
theorem ctxErr_sticky {s s' : State} {a : Action} (h : step s a = some s') (e : CtxErr)
    (he : ctxErr s = some e) : ctxErr s' = some e := by
  ao_step_cases h
  all_goals (try (simp_all [ctxErr]; done))
  exact ctxErrOf_mono he

/-- the deadline timer: at or after the deadline `ctx.Err()` is non-nil -/
theorem deadline_fires (s : State) (d : Nat) (hd : s.deadline = some d) (hn : d ≤ s.now) :
    (ctxErr s).isSome := by
  simp only [ctxErr, ctxErrOf, hd]
  cases s.cancelled <;> simp [hn]

theorem ctxErr_deadlineExceeded {s : State} (h : ctxErr s = some .deadlineExceeded) :
    s.cancelled = false ∧ ∃ d, s.deadline = some d ∧ d ≤ s.now := by
  simp only [ctxErr, ctxErrOf] at h
  cases hc : s.cancelled <;> simp only [hc, Bool.false_eq_true, if_false, if_true] at h
  · refine ⟨rfl, ?_⟩
    cases hd : s.deadline <;> simp only [hd] at h
    · simp at h
    · rename_i d
      by_cases hle : d ≤ s.now
      · exact ⟨d, rfl, hle⟩
      · simp [hle] at h
  · simp at h

theorem ctxErr_canceled {s : State} (h : ctxErr s = some .canceled) : s.cancelled = true := by
  simp only [ctxErr, ctxErrOf] at h
  cases hc : s.cancelled <;> simp only [hc, Bool.false_eq_true, if_false, if_true] at h
  · cases hd : s.deadline <;> simp only [hd] at h
    · simp at h
    · split at h <;> simp at h
  · rfl

/-! ## the callback history only grows -/

theorem cb_mono_step {s s' : State} {a : Action} (h : step s a = some s') :
    s.cbOutcomes.length ≤ s'.cbOutcomes.length := by
  ao_step_cases h
  all_goals (first | (simp; done) | (split <;> simp))

theorem cb_count_step {s s' : State} {a : Action} (h : step s a = some s') :
    s'.cbOutcomes.length ≤ s.cbOutcomes.length + (if a.isResolve then 1 else 0) := by
  ao_step_cases h
  all_goals (first | (simp [Action.isResolve]; done) | (split <;> simp [Action.isResolve]))

theorem cb_count_run (s : State) (acts : List Action) :
    (run s acts).cbOutcomes.length ≤ s.cbOutcomes.length + acts.countP Action.isResolve := by
  induction acts generalizing s with
  | nil => simp [run]
  | cons a acts ih =>
    rw [run_cons, List.countP_cons]
    have h1 := ih (stepD s a)
    rcases stepD_cases s a with ⟨he, _⟩ | hs
    · rw [he] at h1 ⊢; omega
    · have h2 := cb_count_step hs
      by_cases hr : a.isResolve = true
      · simp only [hr, if_true] at h2 ⊢; omega
      · simp only [hr] at h2 ⊢; omega

theorem atMostOnce_cb {c : Cfg} {acts : List Action} (h : AtMostOnce acts) :
    (run (init c) acts).cbOutcomes.length ≤ 1 := by
  have := cb_count_run (init c) acts
  simp only [init, List.length_nil, Nat.zero_add] at this
  exact Nat.le_trans this h

/-! ## waiter-side invariant (no hypothesis on gocbcore) -/

/-- by program counter of the calling goroutine -/
def wInv (s : State) : Prop :=
  match s.wpc with
  | .notStarted => s.cancelCalls = 0 ∧ s.imm = none ∧ s.final = none
  | .immediateErr c => s.cancelCalls = 0 ∧ s.imm = some c ∧ s.final = none
  | .selecting => s.cancelCalls = 0 ∧ s.imm = none ∧ s.final = none
  | .cancelled => s.cancelCalls = 1 ∧ s.imm = none ∧ (ctxErr s).isSome ∧ s.final = none
  | .signalled => s.cancelCalls = 0 ∧ s.imm = none ∧ s.final = none ∧ s.cbOutcomes ≠ []
  | .returned .nil_ => s.cancelCalls = 0 ∧ s.imm = none ∧ s.cbOutcomes ≠ []
  | .returned (.ctx e) => ctxErr s = some e ∧ s.imm = none ∧
      (s.cancelCalls = 1 ∨ (s.cancelCalls = 0 ∧ s.cbOutcomes ≠ []))
  | .returned (.imm c) => s.imm = some c ∧ s.cancelCalls = 0

def InvA (s : State) : Prop := wInv s ∧ (s.signalFull = true → s.cbOutcomes ≠ [])

theorem invA_init (c : Cfg) : InvA (init c) := by
  cases hc : c.imm <;> simp [InvA, wInv, init, hc]

theorem invA_step {s s' : State} {a : Action} (hi : InvA s) (h : step s a = some s') : InvA s' := by
  have st := ctxErr_sticky h
  rcases s with ⟨shape, imm, deadline, now, cancelled, signalFull, resultBuf, stored, wpc, spc,
    cancelCalls, final, cb, crashed⟩
  obtain ⟨h1, h2⟩ := hi
  rcases wpc with _|_|_|_|_|(_|_|_) <;> cases a <;> simp only [step] at h
  all_goals ((repeat' split at h) <;> (first | (cases h) | skip))
  all_goals (simp_all [InvA, wInv, ctxErr])
  all_goals (first | omega |
    (rcases h1 with ⟨_, _, h3, _⟩; obtain ⟨e, he⟩ := Option.isSome_iff_exists.mp h3; simp [st e he]))

theorem invA_run (c : Cfg) (acts : List Action) : InvA (run (init c) acts) :=
  run_induction (P := InvA) (fun _ _ _ hi h => invA_step hi h) _ _ (invA_init c)

/-! ## server-side invariant (under "callback at most once") -/

def sInv (s : State) : Prop :=
  match s.spc with
  | .never => s.cbOutcomes = [] ∧ s.imm.isSome = true
  | .pending => s.cbOutcomes = []
  | .resolved o => s.cbOutcomes = [o] ∧ s.resultBuf = none ∧ s.stored = some o
  | .completed o => s.cbOutcomes = [o] ∧ s.stored = some o

def InvB (s : State) : Prop :=
  sInv s ∧ (s.cbOutcomes = [] → s.signalFull = false ∧ s.resultBuf = none ∧ s.stored = none) ∧
  (s.shape.resultChan = false → s.resultBuf = none)

/-- wrapper-level: who holds the result, and what the wrapper returned -/
def cInv (s : State) : Prop :=
  (s.shape.resultChan = true →
    match s.spc with
    | .completed o =>
        (s.resultBuf = some o ∧ ¬(s.wpc = .returned .nil_ ∧ s.final.isSome)) ∨
        (s.resultBuf = none ∧ s.wpc = .returned .nil_ ∧ s.final = some (finalOf s.shape o))
    | .resolved _ => ¬(s.wpc = .returned .nil_ ∧ s.final.isSome)
    | _ => True) ∧
  (∀ f, s.final = some f →
    match s.wpc with
    | .returned .nil_ => ∃ o, s.cbOutcomes = [o] ∧ f = finalOf s.shape o
    | .returned (.ctx e) => f = .ctxErr e
    | .returned (.imm c) => f = .immErr c
    | _ => False)

def InvBC (s : State) : Prop := InvB s ∧ cInv s

theorem invBC_init (c : Cfg) : InvBC (init c) := by
  cases hc : c.imm <;> simp [InvBC, InvB, sInv, cInv, init, hc]

set_option maxHeartbeats 4000000 in
theorem invBC_step {s s' : State} {a : Action} (ha : InvA s) (hi : InvBC s)
    (h : step s a = some s') (hl : s'.cbOutcomes.length ≤ 1) : InvBC s' := by
  rcases s with ⟨shape, imm, deadline, now, cancelled, signalFull, resultBuf, stored, wpc, spc,
    cancelCalls, final, cb, crashed⟩
  obtain ⟨⟨b1, b2, b3⟩, c1, c2⟩ := hi
  obtain ⟨a1, a2⟩ := ha
  rcases wpc with _|_|_|_|_|(_|_|_) <;> rcases spc with _|_|_|_ <;> cases a <;> simp only [step] at h
  all_goals ((repeat' split at h) <;> (first | (cases h) | skip))
  all_goals (simp_all [InvBC, InvB, sInv, cInv, wInv])

/-- the whole invariant: waiter side always, server side while the contract holds -/
def Inv (s : State) : Prop := InvA s ∧ (s.cbOutcomes.length ≤ 1 → InvBC s)

theorem inv_init (c : Cfg) : Inv (init c) := ⟨invA_init c, fun _ => invBC_init c⟩

theorem inv_step {s s' : State} {a : Action} (hi : Inv s) (h : step s a = some s') : Inv s' := by
  refine ⟨invA_step hi.1 h, fun hl => ?_⟩
  have := cb_mono_step h
  exact invBC_step hi.1 (hi.2 (by omega)) h hl

theorem inv_run (c : Cfg) (acts : List Action) : Inv (run (init c) acts) :=
  run_induction (P := Inv) (fun _ _ _ hi h => inv_step hi h) _ _ (inv_init c)

/-! ## what is visible to the caller changes only by the caller's own steps -/

/-- clock, ctx owner and gocbcore never change what the caller sees -/
theorem visible_stable {s s' : State} {a : Action} (h : step s a = some s')
    (ha : ∀ b, a ≠ .waiterStep b) : visible s' = visible s := by
  ao_step_cases h
  all_goals (first | rfl | (split <;> rfl) | (exfalso; exact ha _ rfl))

/-- once `Wait` has returned, its result and the number of `Cancel()` calls are frozen -/
theorem wait_result_frozen {s s' : State} {a : Action} {r : WaitRes} (h : step s a = some s')
    (hr : s.wpc = .returned r) : s'.wpc = .returned r ∧ s'.cancelCalls = s.cancelCalls := by
  ao_step_cases h
  all_goals (first | (exact ⟨hr, rfl⟩) | (split <;> exact ⟨hr, rfl⟩) | simp_all)

theorem wait_result_frozen_run {s : State} {r : WaitRes} (acts : List Action)
    (hr : s.wpc = .returned r) :
    (run s acts).wpc = .returned r ∧ (run s acts).cancelCalls = s.cancelCalls := by
  refine run_induction (P := fun t => t.wpc = .returned r ∧ t.cancelCalls = s.cancelCalls) ?_ s acts ⟨hr, rfl⟩
  intro t a t' ht h
  have := wait_result_frozen h ht.1
  exact ⟨this.1, this.2.trans ht.2⟩

theorem final_returned {s : State} (hi : InvA s) {f : Final} (hf : s.final = some f) :
    ∃ r, s.wpc = .returned r := by
  obtain ⟨h1, _⟩ := hi
  unfold wInv at h1
  split at h1 <;> simp_all

/-- once the wrapper has returned nothing the caller sees changes any more -/
theorem final_frozen {s s' : State} {a : Action} {f : Final} (hi : InvA s) (h : step s a = some s')
    (hf : s.final = some f) : visible s' = visible s := by
  obtain ⟨r, hr⟩ := final_returned hi hf
  ao_step_cases h
  all_goals (first | rfl | (split <;> rfl) | simp_all)

theorem static_run_init (c : Cfg) (acts : List Action) :
    (run (init c) acts).shape = c.shape ∧ (run (init c) acts).imm = c.imm ∧
    (run (init c) acts).deadline = c.deadline := static_run (init c) acts

/-! ## cancel_on_timeout -/

/-- `op.Cancel()` is called at most once -/
theorem cancel_at_most_once (c : Cfg) (acts : List Action) : (run (init c) acts).cancelCalls ≤ 1 := by
  obtain ⟨h1, _⟩ := invA_run c acts
  unfold wInv at h1
  split at h1 <;> omega

/-- **cancel_on_timeout**: the issuing call succeeded, the server stayed silent (no callback
    so far) and `Wait` has returned ⇒ it returned `ctx.Err()` (non-nil) and `op.Cancel()` was
    called exactly once. -/
theorem cancel_on_timeout (c : Cfg) (acts : List Action) (r : WaitRes) (hc : c.imm = none)
    (hr : (run (init c) acts).wpc = .returned r) (hs : (run (init c) acts).cbOutcomes = []) :
    ∃ e, r = .ctx e ∧ ctxErr (run (init c) acts) = some e ∧ (run (init c) acts).cancelCalls = 1 := by
  obtain ⟨h1, _⟩ := invA_run c acts
  have hi := (static_run_init c acts).2.1
  unfold wInv at h1
  rw [hr] at h1
  cases r <;> simp_all

/-- a cancelled operation is never reported as anything but the ctx error -/
theorem cancel_implies_error (c : Cfg) (acts : List Action) (r : WaitRes)
    (hr : (run (init c) acts).wpc = .returned r) (hn : (run (init c) acts).cancelCalls = 1) :
    ∃ e, r = .ctx e ∧ ctxErr (run (init c) acts) = some e := by
  obtain ⟨h1, _⟩ := invA_run c acts
  unfold wInv at h1
  rw [hr] at h1
  cases r <;> simp_all

/-- the subtle case of `return m.ctx.Err()`: a ctx error WITHOUT a `Cancel()` means the signal
    was received (the callback ran) and the deadline passed before `ctx.Err()` was read –
    the server's outcome is then discarded, which the property allows ("or an error"). -/
theorem timeout_without_cancel (c : Cfg) (acts : List Action) (e : CtxErr)
    (hr : (run (init c) acts).wpc = .returned (.ctx e)) (hn : (run (init c) acts).cancelCalls = 0) :
    (run (init c) acts).cbOutcomes ≠ [] := by
  obtain ⟨h1, _⟩ := invA_run c acts
  unfold wInv at h1
  rw [hr] at h1
  simp_all

/-- `Wait` returns nil only after the callback ran, without any `Cancel()`, and before the deadline fired -/
theorem wait_nil_confirmed (c : Cfg) (acts : List Action)
    (hr : (run (init c) acts).wpc = .returned .nil_) :
    (run (init c) acts).cbOutcomes ≠ [] ∧ (run (init c) acts).cancelCalls = 0 := by
  obtain ⟨h1, _⟩ := invA_run c acts
  unfold wInv at h1
  rw [hr] at h1
  simp_all

/-- the issuing call's error is handed back unchanged, and only then -/
theorem wait_imm_iff (c : Cfg) (acts : List Action) (r : WaitRes)
    (hr : (run (init c) acts).wpc = .returned r) :
    (∀ code, r = .imm code ↔ c.imm = some code) ∧ (c.imm.isSome → (run (init c) acts).cancelCalls = 0) := by
  obtain ⟨h1, _⟩ := invA_run c acts
  have hi := (static_run_init c acts).2.1
  unfold wInv at h1
  rw [hr] at h1
  cases r <;> simp only [] at h1
  · rw [← hi, h1.2.1]; simp
  · rw [← hi, h1.2.1]; simp
  · rw [← hi, h1.1]
    refine ⟨fun code => ?_, fun _ => h1.2⟩
    constructor
    · intro h; cases h; rfl
    · intro h; cases h; rfl

/-! ## outcome_sound -/

/-- what a wrapper return value `f` says about the run that produced it -/
def FinalSound (s : State) : Final → Prop
  | .ok d => s.cbOutcomes = [.ok d]
  | .okEmpty => (∃ code, s.cbOutcomes = [.err code]) ∧ (s.shape.resultChan && s.shape.propagatesErr) = false
  | .srvErr code => s.cbOutcomes = [.err code] ∧ s.shape.resultChan = true ∧ s.shape.propagatesErr = true
  | .ctxErr e => ctxErr s = some e
  | .immErr code => s.imm = some code

theorem final_sound_state {s : State} (hw : wInv s) (hc : cInv s) (f : Final) (hf : s.final = some f) :
    FinalSound s f := by
  have := hc.2 f hf
  unfold wInv at hw
  rcases hwpc : s.wpc with _|_|_|_|_|(_|e|code) <;> simp only [hwpc] at this hw
  · obtain ⟨o, ho, rfl⟩ := this
    cases o <;> simp only [finalOf]
    · exact ho
    · split <;> simp_all [FinalSound]
  · subst this; exact hw.1
  · subst this; exact hw.1

/-- **outcome_sound**: under gocbcore's contract, whatever the wrapper returns is the server's
    outcome or an error: `ok d` only if the one callback invocation carried `ok d`; the
    server's error status `code` as `srvErr code`; `okEmpty` (success without data) only
    for a wrapper shape that does not propagate the callback's error, and only after an error
    status; a ctx error only if `ctx.Err()` is that error; the issuing call's error unchanged. -/
theorem outcome_sound (c : Cfg) (acts : List Action) (f : Final) (h1 : AtMostOnce acts)
    (hf : (run (init c) acts).final = some f) : FinalSound (run (init c) acts) f := by
  obtain ⟨⟨hw, _⟩, hbc⟩ := inv_run c acts
  exact final_sound_state hw (hbc (atMostOnce_cb h1)).2 f hf

/-- **never_success_unconfirmed** (generic wrapper that propagates the callback's error):
    success is reported only when the server's one callback carried success, with that data. -/
theorem never_success_unconfirmed (c : Cfg) (acts : List Action) (f : Final) (h1 : AtMostOnce acts)
    (hrc : c.shape.resultChan = true) (hp : c.shape.propagatesErr = true)
    (hf : (run (init c) acts).final = some f) (hs : f.isSuccess = true) :
    ∃ d, f = .ok d ∧ (run (init c) acts).cbOutcomes = [.ok d] := by
  have h := outcome_sound c acts f h1 hf
  have hsh := (static_run_init c acts).1
  cases f <;> simp [Final.isSuccess] at hs
  · exact ⟨_, rfl, h⟩
  · simp [FinalSound, hsh, hrc, hp] at h

/-! ## F7: the GetVBucketSeqNos shape -/

/-- shape `client.go:GetVBucketSeqNos` HAD on the pinned tree (finding F7, repaired by the
    `fix:` commit c9cc595 in /repo): no result channel, callback `err` dropped -/
def seqnosShape : Shape := { resultChan := false, propagatesErr := false }

/-- server answers with an error status; the caller's goroutine then runs `Wait` to the end -/
def seqnosWitness : List Action :=
  [.srvResolve (.err 1), .srvPush, .waiterStep false, .waiterStep false, .waiterStep false, .waiterStep false]

/-- **never_success_unconfirmed is FALSE for the GetVBucketSeqNos shape** (finding F7): the server
    replied with an error status, exactly once, well before the 60 s deadline, and the wrapper
    returns success with empty data. -/
theorem never_success_unconfirmed_refuted_for_seqnos :
    ∃ (acts : List Action) (f : Final), AtMostOnce acts ∧
      (run (init { shape := seqnosShape, deadline := some 60000 }) acts).final = some f ∧
      f.isSuccess = true ∧
      (run (init { shape := seqnosShape, deadline := some 60000 }) acts).cbOutcomes = [.err 1] :=
  ⟨seqnosWitness, .okEmpty, by decide, by decide, rfl, by decide⟩

/-- after the repair the row has the ordinary shape (buffered result channel, error propagated) -/
theorem seqnos_row_repaired :
    (lookupSite "client.go:GetVBucketSeqNos").map Wrapper.shape
      = some { resultChan := true, propagatesErr := true } := by decide

/-- the table after the repair: no wrapper drops the callback's error any more -/
theorem no_wrapper_drops_err :
    (wrappers.filter (fun w => !w.propagatesErr)).map (·.site) = [] := by decide

/-- table well-formedness used below: a row that propagates the error has a (buffered) result
    channel read after `Wait`, and every row with channels has them buffered and read late -/
theorem table_wf : ∀ w ∈ wrappers,
    (w.propagatesErr = true → w.buffered = some true ∧ w.readsAfterWait = some true) ∧
    (w.buffered ≠ some false) ∧ (w.readsAfterWait ≠ some false) := by decide

/-- **never_success_unconfirmed_partial**: for every row of the wrapper table except the one
    listed as F7 (i.e. every row with `propagatesErr = true`), for every deadline, every
    server behaviour and every schedule: success is reported only if the server's single
    callback carried success, and with exactly that data. -/
theorem never_success_unconfirmed_partial (w : Wrapper) (hw : w ∈ wrappers)
    (hp : w.propagatesErr = true) (deadline : Option Nat) (imm : Option Nat)
    (acts : List Action) (f : Final) (h1 : AtMostOnce acts)
    (hf : (run (init { shape := w.shape, imm := imm, deadline := deadline }) acts).final = some f)
    (hs : f.isSuccess = true) :
    ∃ d, f = .ok d ∧
      (run (init { shape := w.shape, imm := imm, deadline := deadline }) acts).cbOutcomes = [.ok d] := by
  have hb := ((table_wf w hw).1 hp).1
  exact never_success_unconfirmed _ acts f h1 (by simp [Wrapper.shape, hb]) (by simp [Wrapper.shape, hp]) hf hs

/-- non-vacuity: all 15 rows satisfy the hypothesis (14 before the F7 repair) -/
example : (wrappers.filter (·.propagatesErr)).length = 15 := by decide

/-! ## late_completion_harmless -/

/-- under gocbcore's contract no send of the callback ever blocks: when the callback is about
    to run (`pending`) the signal buffer is free, and when it is between `Resolve()` and
    `ch <- err` the result buffer is free -/
theorem server_never_blocks (c : Cfg) (acts : List Action) (h1 : AtMostOnce acts) :
    ((run (init c) acts).spc = .pending → resolveWouldBlock (run (init c) acts) = false) ∧
    (∀ o, (run (init c) acts).spc = .resolved o → pushWouldBlock (run (init c) acts) = false) := by
  obtain ⟨_, hbc⟩ := inv_run c acts
  obtain ⟨⟨hs, he, _⟩, _⟩ := hbc (atMostOnce_cb h1)
  generalize run (init c) acts = s at *
  unfold sInv at hs
  constructor
  · intro hp
    simp only [hp] at hs
    simp [resolveWouldBlock, (he hs).1]
  · intro o hp
    simp only [hp] at hs
    simp [pushWouldBlock, hs.2.1]

/-- **late_completion_harmless**: `Wait` has returned by time-out (ctx error) while the operation
    was still pending; whenever gocbcore then runs the callback – with any outcome, any time
    later – both of its sends go through at once (buffers of size 1 are free), and nothing the
    caller can see changes.  (`cbDerefsResult = false`: the callback itself does not panic.) -/
theorem late_completion_harmless (c : Cfg) (acts : List Action) (e : CtxErr) (o : Outcome)
    (hd : c.shape.cbDerefsResult = false)
    (h1 : AtMostOnce (acts ++ [.srvResolve o]))
    (hcr : (run (init c) acts).crashed = false)
    (_hr : (run (init c) acts).wpc = .returned (.ctx e))
    (hp : (run (init c) acts).spc = .pending) :
    ∃ s1 s2, step (run (init c) acts) (.srvResolve o) = some s1 ∧ step s1 .srvPush = some s2 ∧
      visible s1 = visible (run (init c) acts) ∧ visible s2 = visible (run (init c) acts) ∧
      s2.spc = .completed o := by
  have h1' : AtMostOnce acts := by
    unfold AtMostOnce at *
    rw [List.countP_append] at h1
    omega
  have hnb := (server_never_blocks c acts h1').1 hp
  have hsh := (static_run_init c acts).1
  obtain ⟨_, hbc⟩ := inv_run c acts
  obtain ⟨⟨_, he, hnc⟩, _⟩ := hbc (atMostOnce_cb h1')
  obtain ⟨hsInv, _, _⟩ := (hbc (atMostOnce_cb h1')).1
  generalize run (init c) acts = s at *
  unfold sInv at hsInv
  simp only [hp] at hsInv
  have hrb := (he hsInv).2.1
  simp only [resolveWouldBlock] at hnb
  have hd' : s.shape.cbDerefsResult = false := by rw [hsh]; exact hd
  refine ⟨{ s with spc := .resolved o, signalFull := true, stored := some o,
                   cbOutcomes := s.cbOutcomes ++ [o] }, ?_⟩
  cases hrc : s.shape.resultChan
  · refine ⟨{ s with spc := .completed o, signalFull := true, stored := some o,
                     cbOutcomes := s.cbOutcomes ++ [o] }, ?_, ?_, rfl, rfl, rfl⟩
    · simp [step, hcr, hp, hd', hnb]
    · simp [step, hcr, hrc]
  · refine ⟨{ s with spc := .completed o, signalFull := true, stored := some o,
                     cbOutcomes := s.cbOutcomes ++ [o], resultBuf := some o }, ?_, ?_, rfl, rfl, rfl⟩
    · simp [step, hcr, hp, hd', hnb]
    · simp [step, hcr, hrc, hrb]

/-- outside the contract: a SECOND `Resolve()` while nobody has drained the signal blocks
    (the harness script `double` documents exactly this on the real code) -/
theorem double_resolve_blocks :
    let s := run (init { shape := { resultChan := true, propagatesErr := true }, deadline := some 10 })
      [.srvResolve (.ok 0), .srvPush]
    resolveWouldBlock s = true ∧ step s (.srvResolve (.ok 0)) = none := by decide

/-- failstop: for the waitFirstConfig shape an error outcome (time-out of gocbcore's own deadline,
    shutdown, cancel) makes the callback dereference a nil result: the process dies in gocbcore's
    goroutine (confirmed on the real code, see `Shape.cbDerefsResult`).  The intended behaviour
    of `Start` in that situation is also a panic, so only the place and message differ. -/
theorem waitFirstConfig_err_crashes :
    (run (init { shape := { resultChan := true, propagatesErr := true, cbDerefsResult := true },
                 deadline := none }) [.waiterStep false, .srvResolve (.err 1)]).crashed = true := by decide

theorem waitFirstConfig_row_has_that_shape :
    (lookupSite "rollback_mitigation.go:waitFirstConfig").map (fun w => (w.shape, w.deadline)) =
      some ({ resultChan := true, propagatesErr := true, cbDerefsResult := true }, .background) := by decide

/-! ## returns_by_deadline -/

/-- the `select` of `Wait` is enabled as soon as one of its two cases is ready -/
theorem select_enabled (s : State) (hc : s.crashed = false) (hw : s.wpc = .selecting)
    (h : (ctxErr s).isSome = true ∨ s.signalFull = true) (b : Bool) :
    (step s (.waiterStep b)).isSome = true := by
  simp only [step, hc, hw]
  cases hs : s.signalFull <;> cases hx : (ctxErr s).isSome <;> cases b <;> simp_all

/-- … and it blocks only while neither is: no state with the signal present or the deadline
    passed is stuck at the `select` -/
theorem select_blocked_iff (s : State) (hc : s.crashed = false) (hw : s.wpc = .selecting) (b : Bool) :
    step s (.waiterStep b) = none ↔ (ctxErr s = none ∧ s.signalFull = false) := by
  simp only [step, hc, hw]
  cases hs : s.signalFull <;> cases hx : ctxErr s <;> cases b <;> simp_all

/-- after the deadline the `select` leads to `returned (ctx e)` in two steps of the caller,
    whichever case it picks -/
theorem select_after_deadline (s s1 s2 : State) (e : CtxErr) (b1 b2 : Bool)
    (hw : s.wpc = .selecting) (he : ctxErr s = some e)
    (h1 : step s (.waiterStep b1) = some s1) (h2 : step s1 (.waiterStep b2) = some s2) :
    s2.wpc = .returned (.ctx e) := by
  have he1 := ctxErr_sticky h1 e he
  have hw1 : s1.wpc = .cancelled ∨ s1.wpc = .signalled := by
    ao_step_cases h1
    all_goals simp_all
  ao_step_cases h2
  all_goals simp_all

/-- every enabled step of the caller brings it one step closer to returning … -/
theorem remaining_waiter {s s' : State} {b : Bool} (hi : InvA s) (h : step s (.waiterStep b) = some s') :
    remaining s' + 1 = remaining s := by
  obtain ⟨hw, _⟩ := hi
  unfold wInv at hw
  ao_step_cases h
  all_goals (simp_all [remaining])

/-- … and nobody else can push it back -/
theorem remaining_other {s s' : State} {a : Action} (h : step s a = some s')
    (ha : ∀ b, a ≠ .waiterStep b) : remaining s' = remaining s := by
  have := visible_stable h ha
  simp only [visible, Visible.mk.injEq] at this
  simp [remaining, this.1, this.2.1]

theorem remaining_le (s : State) : remaining s ≤ 4 := by
  unfold remaining
  split <;> (try split) <;> omega

theorem remaining_zero {s : State} (h : remaining s = 0) : s.final.isSome = true := by
  unfold remaining at h
  split at h <;> (try split at h) <;> simp_all

/-- "the deadline has passed (or the ctx was cancelled) and the caller is not waiting for a
    callback that is in the middle of its two sends" -/
def Good (s : State) : Prop :=
  InvA s ∧ s.crashed = false ∧ (ctxErr s).isSome = true ∧
  (s.wpc = .returned .nil_ → s.final = none → s.shape.resultChan = true → s.resultBuf.isSome = true)

/-- in a `Good` state the caller's next step is enabled until the wrapper has returned -/
theorem waiter_enabled_of_good (s : State) (b : Bool) (hg : Good s) (hf : s.final = none) :
    ∃ s', step s (.waiterStep b) = some s' := by
  obtain ⟨_, hc, hx, hr⟩ := hg
  obtain ⟨e, he⟩ := Option.isSome_iff_exists.mp hx
  simp only [step, hc]
  rcases hw : s.wpc with _|_|_|_|_|(_|_|_) <;> simp only [hw] at hr ⊢
  · simp
  · simp
  · cases hsf : s.signalFull <;> cases b <;> simp [he]
  · simp
  · simp
  · cases hrc : s.shape.resultChan
    · simp [hf]
    · have := hr trivial hf hrc
      obtain ⟨o, ho⟩ := Option.isSome_iff_exists.mp this
      simp [hf, ho]
  · simp [hf]
  · simp [hf]

theorem good_waiter (s : State) (b : Bool) (hg : Good s) :
    Good (stepD s (.waiterStep b)) ∧ remaining (stepD s (.waiterStep b)) = remaining s - 1 := by
  cases hf : s.final with
  | some f =>
    -- the wrapper has returned: the step is disabled, nothing changes
    obtain ⟨r, hr⟩ := final_returned hg.1 hf
    have hnone : step s (.waiterStep b) = none := by simp [step, hg.2.1, hr, hf]
    have : stepD s (.waiterStep b) = s := by simp [stepD, hnone]
    rw [this]
    refine ⟨hg, ?_⟩
    simp [remaining, hr, hf]
  | none =>
    obtain ⟨s', hs⟩ := waiter_enabled_of_good s b hg hf
    rw [stepD_eq_of_step hs]
    obtain ⟨hi, hc, hx, hr⟩ := hg
    obtain ⟨e, he⟩ := Option.isSome_iff_exists.mp hx
    have hrem := remaining_waiter hi hs
    have hst := ctxErr_sticky hs e he
    have hi' := invA_step hi hs
    refine ⟨⟨hi', ?_, by simp [hst], ?_⟩, by omega⟩
    · ao_step_cases hs
      all_goals simp_all
    · ao_step_cases hs
      all_goals simp_all

/-- the callback goroutine finishing its second send makes the state `Good` -/
theorem good_after_push (c : Cfg) (acts : List Action) (h1 : AtMostOnce acts)
    (hc : (run (init c) acts).crashed = false) (hx : (ctxErr (run (init c) acts)).isSome = true) :
    Good (stepD (run (init c) acts) .srvPush) := by
  obtain ⟨hia, hbc⟩ := inv_run c acts
  obtain ⟨⟨hs, he, hnc⟩, hcv, _⟩ := hbc (atMostOnce_cb h1)
  generalize run (init c) acts = s at *
  have hw := hia.1
  obtain ⟨e, hce⟩ := Option.isSome_iff_exists.mp hx
  unfold wInv at hw
  unfold sInv at hs
  rcases stepD_cases s .srvPush with ⟨heq, hnone⟩ | hstep
  · rw [heq]
    refine ⟨hia, hc, hx, fun hwp hf hrc => ?_⟩
    simp only [hwp] at hw
    have hcv' := hcv hrc
    simp only [step, hc] at hnone
    rcases hsp : s.spc with _|o|o|_ <;> simp only [hsp] at hs hcv' hnone
    · exact absurd hs hw.2.2
    · simp [hrc, hs.2.1] at hnone
    · rcases hcv' with ⟨hb, _⟩ | ⟨_, _, hf'⟩
      · simp [hb]
      · simp [hf] at hf'
    · exact absurd hs.1 hw.2.2
  · have hst := ctxErr_sticky hstep e hce
    have hia' := invA_step hia hstep
    generalize stepD s .srvPush = s' at *
    refine ⟨hia', ?_, by simp [hst], ?_⟩
    · ao_step_cases hstep
      all_goals simp_all
    · ao_step_cases hstep
      all_goals simp_all

/-- **returns_by_deadline** (model time).  Take ANY reachable state (any schedule, any server
    behaviour within the contract, process not crashed) in which the ctx deadline has passed
    or the ctx was cancelled.  Let the callback goroutine – if it is between its two sends –
    finish, then give the calling goroutine four steps: the wrapper has returned.  Nothing
    else is needed: no server reply, no further tick. -/
theorem returns_by_deadline (c : Cfg) (acts : List Action) (h1 : AtMostOnce acts)
    (hc : (run (init c) acts).crashed = false) (hx : (ctxErr (run (init c) acts)).isSome = true)
    (b1 b2 b3 b4 : Bool) :
    (run (run (init c) acts)
      [.srvPush, .waiterStep b1, .waiterStep b2, .waiterStep b3, .waiterStep b4]).final.isSome = true := by
  have g0 := good_after_push c acts h1 hc hx
  generalize run (init c) acts = s at *
  simp only [run, List.foldl]
  generalize stepD s .srvPush = s0 at *
  have r0 := remaining_le s0
  obtain ⟨g1, r1⟩ := good_waiter s0 b1 g0
  obtain ⟨g2, r2⟩ := good_waiter _ b2 g1
  obtain ⟨g3, r3⟩ := good_waiter _ b3 g2
  obtain ⟨_, r4⟩ := good_waiter _ b4 g3
  apply remaining_zero
  omega

/-- the instance for a ctx with a deadline: once the clock has reached it, the above applies -/
theorem returns_by_deadline_clock (c : Cfg) (d : Nat) (acts : List Action) (h1 : AtMostOnce acts)
    (hd : c.deadline = some d) (hn : d ≤ (run (init c) acts).now)
    (hc : (run (init c) acts).crashed = false) (b1 b2 b3 b4 : Bool) :
    (run (run (init c) acts)
      [.srvPush, .waiterStep b1, .waiterStep b2, .waiterStep b3, .waiterStep b4]).final.isSome = true :=
  returns_by_deadline c acts h1 hc
    (deadline_fires _ d (by rw [(static_run_init c acts).2.2]; exact hd) hn) b1 b2 b3 b4

/-- **returns_by_deadline is FALSE without a ctx deadline** (`context.Background()`:
    `cbMetadata.Load → GetXattrs`, `waitFirstConfig`): with a silent server the caller
    stays in the `select` for ever – these two call sites rely on gocbcore's own deadline
    making the callback run. -/
theorem returns_by_deadline_refuted_for_background (n : Nat) (b : Bool) :
    let s := run (init { shape := { resultChan := true, propagatesErr := true }, deadline := none })
      (.waiterStep false :: List.replicate n .tick)
    s.wpc = .selecting ∧ step s (.waiterStep b) = none := by
  have key : ∀ (n : Nat) (s : State), s.wpc = .selecting → s.crashed = false → s.deadline = none →
      s.cancelled = false → s.signalFull = false →
      (run s (List.replicate n .tick)).wpc = .selecting ∧
      step (run s (List.replicate n .tick)) (.waiterStep b) = none := by
    intro n
    induction n with
    | zero =>
      intro s hw hc hd hca hsf
      refine ⟨hw, ?_⟩
      simp [run, step, hw, hc, ctxErr, ctxErrOf, hd, hca, hsf]
    | succ n ih =>
      intro s hw hc hd hca hsf
      rw [List.replicate_succ, run_cons]
      have : stepD s .tick = { s with now := s.now + 1 } := by simp [stepD, step, hc]
      rw [this]
      exact ih _ hw hc hd hca hsf
  exact key n _ rfl rfl rfl rfl rfl

/-- which rows have no ctx deadline of their own / from any caller -/
theorem background_sites :
    (wrappers.filter (fun w => w.deadline == .background)).map (·.site) =
      ["rollback_mitigation.go:waitFirstConfig"] ∧
    (ctxCallers.filter (fun x => x.2.2 == .background)).map (fun x => (x.1, x.2.1)) =
      [("metadata.go:Load", "doc_op.go:GetXattrs")] := by decide

/-! ## the run-time monitor accepts every run of the model -/

theorem timeOf_ne_late (s : State) : timeOf s ≠ .late := by
  unfold timeOf
  split <;> (try split) <;> simp

/-- **holds_of_run**: for every configuration, every schedule and every server behaviour (no
    `AtMostOnce` needed): if `Wait` has returned `r`, the observation of that run passes
    `Spec.C20.holds`.  `completes = no` may only be claimed for runs without a callback. -/
theorem holds_of_run (c : Cfg) (acts : List Action) (r : WaitRes) (comp : Tri) (ro : RObs)
    (hro : ro = .ok ∨ ro = .na)
    (hr : (run (init c) acts).wpc = .returned r)
    (hcomp : comp = .no → (run (init c) acts).cbOutcomes = []) :
    holds (obsOf c (run (init c) acts) r comp ro) = true := by
  obtain ⟨hw, _⟩ := invA_run c acts
  have him := (static_run_init c acts).2.1
  have htl := timeOf_ne_late (run (init c) acts)
  generalize run (init c) acts = s at *
  unfold wInv at hw
  rw [hr] at hw
  have hro' : (ro == RObs.panic) = false ∧ (ro == RObs.blocked) = false := by
    rcases hro with rfl | rfl <;> exact ⟨rfl, rfl⟩
  rcases r with _ | e | code
  · -- nil
    obtain ⟨h0, hi, hcb⟩ := hw
    have hc : (comp != Tri.no) = true := by
      cases comp <;> simp
      exact hcb (hcomp rfl)
    have hci : c.imm = none := by rw [← him]; exact hi
    cases ht : timeOf s <;> simp_all [holds, check, obsOf, resOf, Res.isCtxErr]
  · obtain ⟨hce, hi, hcc⟩ := hw
    have hci : c.imm = none := by rw [← him]; exact hi
    have hcn : comp = .no → s.cancelCalls = 1 := by
      intro h
      rcases hcc with h1 | ⟨_, h2⟩
      · exact h1
      · exact absurd (hcomp h) h2
    have hle : s.cancelCalls = 0 ∨ s.cancelCalls = 1 := by omega
    cases e
    · -- deadline exceeded
      obtain ⟨_, d, hd, hdn⟩ := ctxErr_deadlineExceeded hce
      have ht : timeOf s = .ontime := by simp [timeOf, hd, hdn]
      rcases hle with h0 | h1
      · have : comp ≠ .no := fun h => by have := hcn h; omega
        cases comp <;> simp_all [holds, check, obsOf, resOf, Res.isCtxErr]
      · cases comp <;> simp_all [holds, check, obsOf, resOf, Res.isCtxErr]
    · have hcan := ctxErr_canceled hce
      rcases hle with h0 | h1
      · have : comp ≠ .no := fun h => by have := hcn h; omega
        cases ht : timeOf s <;> cases comp <;> simp_all [holds, check, obsOf, resOf, Res.isCtxErr]
      · cases ht : timeOf s <;> cases comp <;> simp_all [holds, check, obsOf, resOf, Res.isCtxErr]
  · obtain ⟨hi, h0⟩ := hw
    have hci : c.imm = some code := by rw [← him]; exact hi
    cases ht : timeOf s <;> cases comp <;> simp_all [holds, check, obsOf, resOf, Res.isCtxErr]

/-- the only clause that looks at `completes = no` is implied by "ctx error and one Cancel" -/
theorem holds_no_of_yes (o : Obs) (h : holds { o with completes := .yes } = true)
    (hf : o.imm = true ∨ (o.res.isCtxErr = true ∧ o.cancel = 1)) :
    holds { o with completes := .no } = true := by
  rcases o with ⟨imm, comp, cc, res, cancel, time, resolve⟩
  cases imm <;> cases res <;> cases time <;> cases resolve <;> cases cc <;>
    simp_all [holds, check, Res.isCtxErr]

/-- the `late` script: no callback before `Wait` returned, any number of callbacks and anything
    else afterwards – the observation taken at the very end still passes with `completes = no` -/
theorem holds_of_silent_prefix (c : Cfg) (pre post : List Action) (r : WaitRes) (ro : RObs)
    (hro : ro = .ok ∨ ro = .na)
    (hr : (run (init c) pre).wpc = .returned r) (hs : (run (init c) pre).cbOutcomes = []) :
    (run (init c) (pre ++ post)).wpc = .returned r ∧
    holds (obsOf c (run (init c) (pre ++ post)) r .no ro) = true := by
  have hfr := wait_result_frozen_run post hr
  rw [← run_append] at hfr
  refine ⟨hfr.1, ?_⟩
  have h1 := holds_of_run c (pre ++ post) r .yes ro hro hfr.1 (by simp)
  have hfacts : c.imm.isSome = true ∨
      ((resOf r).isCtxErr = true ∧ (run (init c) (pre ++ post)).cancelCalls = 1) := by
    cases hci : c.imm with
    | some code => simp
    | none =>
      right
      obtain ⟨e, rfl, _, hc1⟩ := cancel_on_timeout c pre r hci hr hs
      rw [hfr.2, hc1]
      cases e <;> simp [resOf, Res.isCtxErr]
  exact holds_no_of_yes (obsOf c (run (init c) (pre ++ post)) r .yes ro) h1 hfacts

/-! ## the driver's model observations pass the monitor (all script parameters) -/

theorem cb_nil_of_no_resolve (c : Cfg) (acts : List Action) (h : acts.countP Action.isResolve = 0) :
    (run (init c) acts).cbOutcomes = [] := by
  have := cb_count_run (init c) acts
  have h0 : (init c).cbOutcomes.length = 0 := rfl
  rw [h, h0] at this
  exact List.eq_nil_of_length_eq_zero (by omega)

theorem resolveObs_na (s : State) (acts : List Action) (h : acts.countP Action.isResolve = 0) :
    resolveObs s acts = .na := by
  induction acts generalizing s with
  | nil => rfl
  | cons a rest ih =>
    rw [List.countP_cons] at h
    have ha : a.isResolve = false := by
      cases hr : a.isResolve
      · rfl
      · simp [hr] at h
    have hrest : rest.countP Action.isResolve = 0 := by omega
    simp only [resolveObs, ha, Bool.false_eq_true, if_false]
    exact ih _ hrest

/-- a callback that does not dereference a nil result never crashes the process -/
theorem not_crashed_run (c : Cfg) (acts : List Action) (hd : c.shape.cbDerefsResult = false) :
    (run (init c) acts).crashed = false := by
  have : (run (init c) acts).shape.cbDerefsResult = false ∧ (run (init c) acts).crashed = false := by
    refine run_induction (P := fun t => t.shape.cbDerefsResult = false ∧ t.crashed = false) ?_ _ _ ⟨hd, rfl⟩
    intro s a s' hs h
    obtain ⟨h1, h2⟩ := hs
    ao_step_cases h
    all_goals (first | (exact ⟨h1, h2⟩) | (split <;> exact ⟨h1, h2⟩) | simp_all)
  exact this.2

/-- under gocbcore's contract (and a callback that does not panic) every `Resolve()` of a
    schedule goes through – whatever the caller, the clock and the ctx owner do in between -/
theorem resolveObs_not_blocked (c : Cfg) (acts0 acts : List Action)
    (h : AtMostOnce (acts0 ++ acts)) (hd : c.shape.cbDerefsResult = false) (hi : c.imm = none) :
    resolveObs (run (init c) acts0) acts = .ok ∨ resolveObs (run (init c) acts0) acts = .na := by
  induction acts generalizing acts0 with
  | nil => right; rfl
  | cons a rest ih =>
    cases ha : a.isResolve
    · -- not a callback invocation
      simp only [resolveObs, ha, Bool.false_eq_true, if_false]
      have : stepD (run (init c) acts0) a = run (init c) (acts0 ++ [a]) := by
        rw [run_append]; rfl
      rw [this]
      apply ih
      simpa using h
    · -- the one callback invocation
      left
      have hcnt : acts0.countP Action.isResolve = 0 ∧ rest.countP Action.isResolve = 0 := by
        unfold AtMostOnce at h
        rw [List.countP_append, List.countP_cons, ha] at h
        simp at h
        omega
      have hcb := cb_nil_of_no_resolve c acts0 hcnt.1
      have hcr := not_crashed_run c acts0 hd
      have hst := static_run_init c acts0
      obtain ⟨_, hbc⟩ := inv_run c acts0
      obtain ⟨⟨hs, he, _⟩, _⟩ := hbc (by rw [hcb]; simp)
      generalize run (init c) acts0 = s at *
      have hsf := (he hcb).1
      have hsp : s.spc = .pending := by
        unfold sInv at hs
        rcases hsp : s.spc with _|_|_|_ <;> simp only [hsp] at hs
        · rfl
        · simp [hcb] at hs
        · simp [hcb] at hs
        · rw [hst.2.1, hi] at hs; simp at hs
      cases a <;> simp [Action.isResolve] at ha
      rename_i o
      have hd' : s.shape.cbDerefsResult = false := by rw [hst.1]; exact hd
      simp only [resolveObs, Action.isResolve, if_true]
      simp [step, hcr, hsp, hd', hsf, resolveObs_na _ rest hcnt.2]

theorem countP_replicate_tick (n : Nat) :
    (List.replicate n Action.tick).countP Action.isResolve = 0 := by
  induction n with
  | zero => rfl
  | succ n ih => rw [List.replicate_succ, List.countP_cons, ih]; rfl

theorem silentActs_no_resolve (D : Nat) : (silentActs D).countP Action.isResolve = 0 := by
  simp only [silentActs, List.countP_append, countP_replicate_tick, List.countP_cons, List.countP_nil,
    Action.isResolve]
  rfl

/-- **modelObs_holds**: whatever the driver prints as the model's observation of a deterministic
    script – for every deadline and every delay – passes the monitor. -/
theorem modelObs_holds (sc : Script) (D a : Nat) (o : Obs) (h : modelObs sc D a = some o) :
    holds o = true := by
  unfold modelObs at h
  simp only at h
  split at h
  · rename_i r hr
    cases h
    have hro : resolveObs (init (expand sc D a).cfg) ((expand sc D a).pre ++ (expand sc D a).post) = .ok ∨
        resolveObs (init (expand sc D a).cfg) ((expand sc D a).pre ++ (expand sc D a).post) = .na := by
      cases sc
      · right; apply resolveObs_na; simp [expand, Action.isResolve]
      all_goals
        (apply resolveObs_not_blocked _ [] _ _ rfl rfl
         simp [AtMostOnce, expand, silentActs, List.countP_append, countP_replicate_tick, Action.isResolve, List.countP_cons])
    apply holds_of_run _ _ _ _ _ hro hr
    intro hno
    apply cb_nil_of_no_resolve
    cases sc <;> simp only [expand] at hno ⊢
    · rfl
    · simp at hno
    · simp at hno
    · exact silentActs_no_resolve D
    · exact silentActs_no_resolve D
    · rfl
  · simp at h

/-! ## closed forms of the model's predictions (all deadlines, all delays) -/

theorem run_ticks (s : State) (n : Nat) (hc : s.crashed = false) :
    run s (List.replicate n .tick) = { s with now := s.now + n } := by
  induction n generalizing s with
  | zero => simp [run]
  | succ n ih =>
    rw [List.replicate_succ, run_cons]
    have : stepD s .tick = { s with now := s.now + 1 } := by simp [stepD, step, hc]
    rw [this, ih { s with now := s.now + 1 } hc]
    simp only [State.mk.injEq, true_and, and_true]
    omega

theorem resolveObs_ticks (s : State) (n : Nat) (rest : List Action) (hc : s.crashed = false) :
    resolveObs s (List.replicate n .tick ++ rest) = resolveObs { s with now := s.now + n } rest := by
  induction n generalizing s with
  | zero => simp
  | succ n ih =>
    rw [List.replicate_succ, List.cons_append]
    simp only [resolveObs, Action.isResolve, Bool.false_eq_true, if_false]
    have : stepD s .tick = { s with now := s.now + 1 } := by simp [stepD, step, hc]
    rw [this, ih { s with now := s.now + 1 } hc]
    congr 1
    simp only [State.mk.injEq, true_and, and_true]
    omega

/-- closed form of the model's prediction for the `silent` script, all deadlines -/
theorem modelObs_silent (D a : Nat) :
    modelObs .silent D a = some (Obs.mk false .no false .deadline 1 .ontime .na) := by
  simp [modelObs, expand, silentActs, l0Cfg, run_append, run_cons, run_nil, run_ticks, resolveObs_ticks, stepD, step, init, ctxErr, ctxErrOf,
    obsOf, resOf, timeOf, resolveObs, Action.isResolve]

theorem modelObs_late (D a : Nat) :
    modelObs .late D a = some (Obs.mk false .no false .deadline 1 .ontime .ok) := by
  simp [modelObs, expand, silentActs, l0Cfg, run_append, run_cons, run_nil, run_ticks, resolveObs_ticks, stepD, step, init, ctxErr, ctxErrOf,
    obsOf, resOf, timeOf, resolveObs, Action.isResolve, l0Shape]

theorem modelObs_mid (D a : Nat) (h : a < D) :
    modelObs .mid D a = some (Obs.mk false .yes false .nil_ 0 .before .ok) := by
  have h' : ¬ D ≤ a := by omega
  simp [modelObs, expand, l0Cfg, run_append, run_cons, run_nil, run_ticks, resolveObs_ticks, stepD, step, init, ctxErr, ctxErrOf,
    obsOf, resOf, timeOf, resolveObs, Action.isResolve, l0Shape, h']

theorem modelObs_pre (D a : Nat) (h : 0 < D) :
    modelObs .pre D a = some (Obs.mk false .yes false .nil_ 0 .before .ok) := by
  have h' : ¬ D = 0 := by omega
  simp [modelObs, expand, l0Cfg, run_cons, run_nil, stepD, step, init, ctxErr, ctxErrOf,
    obsOf, resOf, timeOf, resolveObs, Action.isResolve, l0Shape, h']

theorem modelObs_imm (D a : Nat) (h : 0 < D) :
    modelObs .imm D a = some (Obs.mk true .no false .imm 0 .before .na) := by
  have h' : ¬ D = 0 := by omega
  simp [modelObs, expand, run_cons, run_nil, stepD, step, init, obsOf, resOf, timeOf, resolveObs, Action.isResolve, h']

theorem modelObs_precancel (D a : Nat) (h : 0 < D) :
    modelObs .precancel D a = some (Obs.mk false .no true .canceled 1 .before .na) := by
  have h' : ¬ D = 0 := by omega
  simp [modelObs, expand, l0Cfg, run_cons, run_nil, stepD, step, init, ctxErr, ctxErrOf,
    obsOf, resOf, timeOf, resolveObs, Action.isResolve, l0Shape, h']

/-- closed form of the set of (result, Cancel calls) the model allows for the `race` script -/
theorem raceSet_race (D : Nat) (h : 0 < D) :
    raceSet .race D = [(.nil_, 0), (.deadline, 0), (.deadline, 1), (.deadline, 0), (.deadline, 1)] := by
  have h1 : ¬ D ≤ D - 1 := by omega
  have h2 : D ≤ D - 1 + 1 := by omega
  simp [raceSet, raceSchedules, silentActs, l0Cfg, run_append, run_cons, run_nil, run_ticks, stepD, step, init,
    ctxErr, ctxErrOf, resOf, l0Shape, h1, h2]

theorem raceSet_precancelpre (D : Nat) (h : 0 < D) :
    raceSet .precancelpre D = [(.canceled, 1), (.canceled, 0)] := by
  have h' : ¬ D = 0 := by omega
  simp [raceSet, raceSchedules, l0Cfg, run_cons, run_nil, stepD, step, init, ctxErr, ctxErrOf, resOf, l0Shape, h']

/-- the subtle case of `return m.ctx.Err()` exists: the callback ran with success, the signal
    was received, but the deadline fired before `ctx.Err()` was read – `Wait` returns
    DeadlineExceeded, nothing is cancelled, the server's outcome is dropped -/
theorem outcome_discarded_after_signal :
    let s := run (init (l0Cfg 3))
      [.waiterStep false, .tick, .tick, .srvResolve (.ok 7), .waiterStep false, .tick, .waiterStep false]
    s.wpc = .returned (.ctx .deadlineExceeded) ∧ s.cancelCalls = 0 ∧ s.cbOutcomes = [.ok 7] := by decide

/-- the `select` with both cases ready is a genuine choice: both continuations exist and differ
    in whether `op.Cancel()` is called -/
theorem select_both_ready :
    let s := run (init (l0Cfg 1)) [.waiterStep false, .tick, .srvResolve (.ok 7)]
    (ctxErr s).isSome = true ∧ s.signalFull = true ∧
    ((step s (.waiterStep true)).map (·.cancelCalls)) = some 1 ∧
    ((step s (.waiterStep false)).map (·.cancelCalls)) = some 0 := by decide

/-! ## non-vacuity of the hypotheses -/

/-- a generic wrapper, server replies with success in time: all hypotheses of
    `outcome_sound` / `never_success_unconfirmed` hold and the conclusion is the interesting one -/
example :
    let c : Cfg := { shape := { resultChan := true, propagatesErr := true }, deadline := some 60000 }
    let acts : List Action := [.waiterStep false, .tick, .srvResolve (.ok 5), .srvPush,
      .waiterStep false, .tick, .waiterStep false, .waiterStep false]
    AtMostOnce acts ∧ (run (init c) acts).final = some (.ok 5) ∧ (run (init c) acts).crashed = false := by
  decide

/-- … with an error status: the error is propagated -/
example :
    let c : Cfg := { shape := { resultChan := true, propagatesErr := true }, deadline := some 60000 }
    let acts : List Action := [.waiterStep false, .srvResolve (.err 9), .waiterStep false, .srvPush,
      .waiterStep false, .waiterStep false]
    AtMostOnce acts ∧ (run (init c) acts).final = some (.srvErr 9) := by
  decide

/-- the wrapper's read of the result channel really waits for the callback's second send -/
example :
    let c : Cfg := { shape := { resultChan := true, propagatesErr := true }, deadline := some 60000 }
    let s := run (init c) [.waiterStep false, .srvResolve (.ok 5), .waiterStep false, .waiterStep false]
    s.wpc = .returned .nil_ ∧ step s (.waiterStep false) = none ∧ (step s .srvPush).isSome = true := by
  decide

/-- hypotheses of `late_completion_harmless` / `returns_by_deadline_clock` on a silent server -/
example :
    let c : Cfg := { shape := { resultChan := true, propagatesErr := true }, deadline := some 2 }
    let acts : List Action := [.waiterStep false, .tick, .tick, .waiterStep false, .waiterStep false]
    AtMostOnce (acts ++ [.srvResolve (.err 3)]) ∧ (run (init c) acts).crashed = false ∧
    (run (init c) acts).wpc = .returned (.ctx .deadlineExceeded) ∧ (run (init c) acts).spc = .pending ∧
    (run (init c) acts).cancelCalls = 1 ∧ 2 ≤ (run (init c) acts).now := by
  decide

end GoDcp.AsyncOp
