import GoDcp.Model.Life
/-!
# C12 — stream ends are recovered, counted and terminate the client correctly
(first layer: one-step decision logic of `listenEnd`; run-level invariants in `Props/C12Run.lean`)
-/
namespace GoDcp.Life

/-- a transient end while running (no cancel) re-requests the vBucket from its current position
    and leaves the active count alone -/
theorem transient_reopens_from_position (s : LSt) (vb q : Nat)
    (hopen : s.closedObs = false) (hc : s.closeWithCancel = false) (hp : s.pos.get? vb = some q) :
    listenEnd s vb .transient = (s, [.openreq vb q]) := by
  simp [listenEnd, hopen, hc, hp]

/-- every other end is final: the active count drops by exactly one -/
theorem final_end_decrements (s : LSt) (vb : Nat) (c : EndCause) (hc : c ≠ .transient)
    (hopen : s.closedObs = false) :
    (listenEnd s vb c).1.active = s.active - 1 := by
  cases c <;> simp_all [listenEnd, waitFires] <;> (repeat' split) <;> simp_all

/-- the stream closes `stopCh` at a final end iff that end was the last one, the stream is not
    rebalancing and it was not already stopped -/
theorem final_end_stops_iff (s : LSt) (vb : Nat) (c : EndCause) (hc : c ≠ .transient)
    (hopen : s.closedObs = false) (hns : s.stopClosed = false) :
    (LObs.stop ∈ (listenEnd s vb c).2) ↔
      (s.active - 1 = 0 ∧ s.finishedWithClose = false ∧ s.balancing = false) := by
  cases c <;> simp_all [listenEnd, waitFires] <;> (repeat' split) <;> simp_all

/-- ends that arrive after `Close` (observer `endClosed`) are ignored -/
theorem end_after_close_ignored (s : LSt) (vb : Nat) (c : EndCause) (h : s.closedObs = true) :
    listenEnd s vb c = (s, []) := by
  simp [listenEnd, h]

/-- non-vacuity: two assigned vBuckets, both end for good ⇒ the second end stops the client -/
example :
    let s0 : LSt := { memLo := 0, memHi := 1 }
    let s1 := (step s0 .open).1
    let s2 := (step s1 (.endEv 0 .final)).1
    ((step s1 (.endEv 0 .final)).2, (step s2 (.endEv 1 .clean)).2, (step s2 (.endEv 1 .clean)).1.active)
      = ([], [.stop], 0) := by decide

end GoDcp.Life
