import GoDcp.Proofs.SessionLemmas
/-!
# C04 — tracked position only moves forward and equals the furthest settled event

All statements are about the validated session model (`GoDcp.step`) and hold for
every state, every op and every op list (no bounds).

"In-session" (`inSession op = true`) excludes open / close / crash / setStore / setFlog and
`.rebalance`: a rebalance keeps the stream object but closes it, installs a new range and loads the
positions again from the store, so positions CAN move backwards across it (it is a boundary like
close + open). The monotonicity and running-maximum statements of 2.–4. are stated for in-session
ops and therefore say nothing across a rebalance; `.reopen` (transient stream end) is in-session and
changes no position. What survives a rebalance (contexts, session number) and what a late
acknowledgement then does is in 5. (`ack_after_rebalance_*`).

1. `setOffset_pos`, `setOffset_mono`
2. `step_pos_mono`, `run_pos_mono`
3. `track_is_position`, `no_track_pos_unchanged`, `track_monotone`
4. `open_has_entry`, `position_is_running_max`, `position_is_running_max_run`,
   `ack_order_irrelevant`
5. `out_of_range_ack_noop`, `Inv_range`, `step_inv_range` (every op; a rebalance re-establishes it for
   the new range), `step_writes_in_range`, `out_of_range_ack_then_save`,
   `ack_after_rebalance_out_of_range`, `in_range_ack`, `ack_after_rebalance_in_range`,
   `rebalance_resume_pos`
6. `St.equiv`, `ack_commute`, `step_equiv` (congruence, every op), `step_out_equiv`, `ack_commute_run`
7. non-vacuity examples
-/
namespace GoDcp.C04
open GoDcp

/-! ## 1. `setOffset` -/

/-- position of every vBucket after `setOffset` -/
theorem setOffset_pos (s : St) (vb : Vb) (o : Offset) (dirty : Bool) (v : Vb) :
    posSeq (setOffset s vb o dirty).1 v =
      if v = vb ∧ inRange s.cfg vb = true ∧
          (s.offsets.get? vb = none ∨ ∃ cur, s.offsets.get? vb = some cur ∧ cur.seq ≤ o.seq)
      then o.seq else posSeq s v := by
  have hiff := accepts_iff s vb o
  unfold posSeq
  rw [setOffset_get?]
  by_cases ha : accepts s vb o = true
  · by_cases hv : v = vb
    · rw [if_pos ⟨hv, ha⟩, if_pos ⟨hv, hiff.1 ha⟩]; rfl
    · rw [if_neg (fun h => hv h.1), if_neg (fun h => hv h.1)]
  · rw [if_neg (fun h => ha h.2), if_neg (fun h => ha (hiff.2 h.2))]

/-- the same with the guard written through the position -/
theorem setOffset_pos' (s : St) (vb : Vb) (o : Offset) (dirty : Bool) (v : Vb) :
    posSeq (setOffset s vb o dirty).1 v =
      if v = vb ∧ inRange s.cfg vb = true ∧ posSeq s vb ≤ o.seq then o.seq else posSeq s v := by
  have h1 := accepts_iff s vb o
  have h2 := accepts_iff_pos s vb o
  rw [setOffset_pos]
  by_cases ha : accepts s vb o = true
  · by_cases hv : v = vb
    · rw [if_pos ⟨hv, h1.1 ha⟩, if_pos ⟨hv, h2.1 ha⟩]
    · rw [if_neg (fun h => hv h.1), if_neg (fun h => hv h.1)]
  · rw [if_neg (fun h => ha (h1.2 h.2)), if_neg (fun h => ha (h2.2 h.2))]

/-- `setOffset` never moves a position backwards -/
theorem setOffset_mono (s : St) (vb : Vb) (o : Offset) (dirty : Bool) (v : Vb) :
    posSeq s v ≤ posSeq (setOffset s vb o dirty).1 v := by
  rw [setOffset_pos']
  split
  · rename_i h; obtain ⟨rfl, _, h⟩ := h; exact h
  · exact Nat.le_refl _

/-! ## 2. one step, runs -/

/-- position of `v` after an attempted settle -/
def posAfter (s : St) (v : Vb) : Option (Vb × Offset) → Nat
  | none => posSeq s v
  | some (vb, o) => if v = vb ∧ inRange s.cfg vb = true ∧ posSeq s vb ≤ o.seq then o.seq else posSeq s v

theorem posSeq_applySettle (s t : St) (x : Option (Vb × Offset)) (h : t.offsets = applySettle s x) (v : Vb) :
    posSeq t v = posAfter s v x := by
  cases x with
  | none => simp only [applySettle] at h; exact posSeq_congr h v
  | some p =>
    obtain ⟨vb, o⟩ := p
    simp only [posAfter]
    rw [← setOffset_pos' s vb o false v]
    apply posSeq_congr
    rw [h, setOffset_applySettle]

/-- no in-session op moves a position backwards (`.reopen` included, it changes no position; a
    `.rebalance` is not in-session: it loads the positions again from the store, see
    `rebalance_resume_pos`, and they may be behind the ones reached) -/
theorem step_pos_mono (s : St) (op : Op) (vb : Vb) (h : inSession op = true) :
    posSeq s vb ≤ posSeq (step s op).1 vb := by
  rw [posSeq_applySettle s _ _ (step_offsets_eq s h) vb]
  cases settle? s op with
  | none => exact Nat.le_refl _
  | some p =>
    obtain ⟨v, o⟩ := p
    simp only [posAfter]
    split
    · rename_i h; obtain ⟨rfl, _, h⟩ := h; exact h
    · exact Nat.le_refl _

/-- … hence along any run of in-session ops (no open / close / crash / rebalance in between) -/
theorem run_pos_mono (s : St) (ops : List Op) (vb : Vb) (h : ∀ op ∈ ops, inSession op = true) :
    posSeq s vb ≤ posSeq (run s ops) vb := by
  induction ops generalizing s with
  | nil => exact Nat.le_refl _
  | cons op r ih =>
    rw [run_cons]
    exact Nat.le_trans (step_pos_mono s op vb (h op List.mem_cons_self))
      (ih _ fun o ho => h o (List.mem_cons_of_mem _ ho))

/-! ## 3. notifications -/

/-- every `TrackOffset` call reports exactly the position now held (for every op) -/
theorem track_is_position (s : St) (op : Op) (vb : Vb) (o : Offset)
    (h : Obsv.track vb o ∈ (step s op).2) : (step s op).1.offsets.get? vb = some o := by
  rw [← mem_tracksOut, step_tracks] at h
  cases hx : settle? s op with
  | none => simp [hx, settleOut] at h
  | some p =>
    obtain ⟨v, o'⟩ := p
    rw [step_offsets_eq s (inSession_of_settle hx), hx]
    simp only [hx, settleOut, applySettle] at h ⊢
    split at h
    · rename_i ha
      simp only [List.mem_singleton, Prod.mk.injEq] at h
      obtain ⟨rfl, rfl⟩ := h
      rw [if_pos ha, AMap.get?_set_same]
    · simp at h

/-- without a `TrackOffset` call for `vb` the entry of `vb` is unchanged (in-session ops; open, close,
    crash and rebalance replace the whole table without any `TrackOffset` call) -/
theorem no_track_pos_unchanged (s : St) (op : Op) (vb : Vb) (hin : inSession op = true)
    (h : ∀ o, Obsv.track vb o ∉ (step s op).2) : (step s op).1.offsets.get? vb = s.offsets.get? vb := by
  rw [step_offsets_eq s hin]
  have h' : ∀ o, (vb, o) ∉ settleOut s (settle? s op) := by
    intro o ho; rw [← step_tracks, mem_tracksOut] at ho; exact h o ho
  cases hx : settle? s op with
  | none => rfl
  | some p =>
    obtain ⟨v, o'⟩ := p
    simp only [hx, settleOut, applySettle] at h' ⊢
    split
    · rename_i ha
      have hne : vb ≠ v := by
        intro e; subst e
        exact h' o' (by simp [ha])
      exact AMap.get?_set_other _ _ _ _ hne
    · rfl

/-- the tracked sequence numbers of one vBucket in an observation trace -/
def tracksOf (vb : Vb) (tr : List (List Obsv)) : List Nat :=
  (tracksOut tr.flatten).filterMap fun p => if p.1 = vb then some p.2.seq else none

theorem tracksOf_cons (vb : Vb) (out : List Obsv) (tr : List (List Obsv)) :
    tracksOf vb (out :: tr) = tracksOf vb [out] ++ tracksOf vb tr := by
  simp [tracksOf, tracksOut, List.filterMap_append]

/-- a step tracks at most one value for a vBucket, and it is the new position -/
theorem tracksOf_step (s : St) (op : Op) (vb : Vb) :
    tracksOf vb [(step s op).2] = [] ∨ tracksOf vb [(step s op).2] = [posSeq (step s op).1 vb] := by
  have h0 : tracksOf vb [(step s op).2] =
      (settleOut s (settle? s op)).filterMap fun p => if p.1 = vb then some p.2.seq else none := by
    simp [tracksOf, step_tracks]
  cases hx : settle? s op with
  | none => left; rw [h0, hx]; rfl
  | some p =>
    obtain ⟨v, o⟩ := p
    rw [h0, hx]
    simp only [settleOut]
    by_cases ha : accepts s v o = true
    · by_cases hv : v = vb
      · right
        subst hv
        have hin := inSession_of_settle hx
        have : (step s op).1.offsets.get? v = some o := by
          rw [step_offsets_eq s hin, hx]; simp [applySettle, ha, AMap.get?_set_same]
        simp [ha, posSeq_of_get? this]
      · left; simp [ha, hv]
    · left; simp [ha]

/-- along any in-session run (in particular: no rebalance in between, which re-loads the positions
    from the store) the tracked sequence numbers of a vBucket never decrease, lie between the start
    and the final position, and the last one (if any) is the final position -/
theorem track_monotone (s : St) (ops : List Op) (vb : Vb) (h : ∀ op ∈ ops, inSession op = true) :
    List.Pairwise (· ≤ ·) (tracksOf vb (runTrace s ops).2) ∧
    (∀ x ∈ tracksOf vb (runTrace s ops).2, posSeq s vb ≤ x ∧ x ≤ posSeq (run s ops) vb) ∧
    (∀ x, (tracksOf vb (runTrace s ops).2).getLast? = some x → x = posSeq (run s ops) vb) := by
  induction ops generalizing s with
  | nil => simp [tracksOf, tracksOut]
  | cons op r ih =>
    have hop := h op List.mem_cons_self
    have hr : ∀ o ∈ r, inSession o = true := fun o ho => h o (List.mem_cons_of_mem _ ho)
    obtain ⟨ih1, ih2, ih3⟩ := ih (step s op).1 hr
    have hm1 := step_pos_mono s op vb hop
    have hm2 := run_pos_mono (step s op).1 r vb hr
    rw [runTrace_cons, run_cons, tracksOf_cons]
    rcases tracksOf_step s op vb with h0 | h0 <;> rw [h0]
    · refine ⟨by simpa using ih1, ?_, by simpa using ih3⟩
      intro x hx
      have := ih2 x (by simpa using hx)
      exact ⟨Nat.le_trans hm1 this.1, this.2⟩
    · refine ⟨?_, ?_, ?_⟩
      · simp only [List.singleton_append, List.pairwise_cons]
        exact ⟨fun x hx => (ih2 x hx).1, ih1⟩
      · intro x hx
        simp only [List.singleton_append, List.mem_cons] at hx
        rcases hx with rfl | hx
        · exact ⟨hm1, hm2⟩
        · have := ih2 x hx
          exact ⟨Nat.le_trans hm1 this.1, this.2⟩
      · intro x hx
        cases ht : tracksOf vb (runTrace (step s op).1 r).2 with
        | nil =>
          rw [ht] at hx; simp at hx; subst hx
          -- nothing tracked afterwards: the position did not move any more
          clear ih1 ih3
          have : ∀ (s' : St) (l : List Op), (∀ o ∈ l, inSession o = true) →
              tracksOf vb (runTrace s' l).2 = [] → posSeq (run s' l) vb = posSeq s' vb := by
            intro s' l
            induction l generalizing s' with
            | nil => intros; rfl
            | cons o l ihl =>
              intro hl hnil
              rw [runTrace_cons, tracksOf_cons] at hnil
              have hnil' := List.append_eq_nil_iff.1 hnil
              rw [run_cons, ihl _ (fun o' ho' => hl o' (List.mem_cons_of_mem _ ho')) hnil'.2]
              have hno : ∀ o', Obsv.track vb o' ∉ (step s' o).2 := by
                intro o' hmem
                have : o'.seq ∈ tracksOf vb [(step s' o).2] := by
                  simp only [tracksOf, List.flatten_cons, List.flatten_nil, List.append_nil, List.mem_filterMap]
                  exact ⟨(vb, o'), mem_tracksOut.2 hmem, by simp⟩
                rw [hnil'.1] at this; simp at this
              unfold posSeq
              rw [no_track_pos_unchanged s' o vb (hl o List.mem_cons_self) hno]
          exact (this _ r hr ht).symm
        | cons y ys =>
          rw [ht] at hx ih3
          apply ih3
          simpa [List.getLast?_cons_cons] using hx


/-! ## 4. the position is the running maximum of the settles -/

/-- after a successful `open` exactly the assigned vBuckets have an entry -/
theorem open_has_entry (s : St) (h : (openSession s).1.isOpen = true) (h0 : s.isOpen = false) (vb : Vb) :
    (openSession s).1.offsets.has vb = true ↔ vb ∈ vbRange s.cfg := by
  cases hl : load (openBase s) with
  | none => rw [openSession_of_load_none h0 hl] at h; simp [openBase] at h
  | some r =>
    obtain ⟨offs, dirty, any⟩ := r
    rw [openSession_of_load_some h0 hl]
    simp only []
    rw [AMap.has_iff_mem_keys, load_keys hl]; rfl

/-- … which is the range guard of `setOffset` -/
theorem open_has_entry_iff_inRange (s : St) (h : (openSession s).1.isOpen = true) (h0 : s.isOpen = false) (vb : Vb) :
    (openSession s).1.offsets.has vb = true ↔ inRange (openSession s).1.cfg vb = true := by
  rw [open_has_entry s h h0, openSession_cfg, inRange_iff_mem_vbRange]

/-- the resume position after a successful `open`: the stored document's seqno (0 without a
    document), or the current high seqno when the latest-reset applies -/
theorem open_resume_pos (s : St) (h : (openSession s).1.isOpen = true) (h0 : s.isOpen = false) (vb : Vb)
    (hvb : vb ∈ vbRange s.cfg) :
    posSeq (openSession s).1 vb = ((s.store.get? vb).getD Doc.zero).seq ∨
    posSeq (openSession s).1 vb = (s.high.get? vb).getD 0 := by
  cases hl : load (openBase s) with
  | none => rw [openSession_of_load_none h0 hl] at h; simp [openBase] at h
  | some r =>
    obtain ⟨offs, dirty, any⟩ := r
    rw [openSession_of_load_some h0 hl]
    rcases load_some_cases hl with ⟨_, ho⟩ | ⟨_, _, _, ho⟩
    · right
      simp only [posSeq, ho, AMap.get?_ofKeys]
      simp [openBase, hvb]
    · left
      simp only [posSeq, ho, AMap.get?_ofKeys]
      simp [openBase, hvb, Doc.toOffset]

/-- the sequence number an op tries to settle on `vb` (0 = none; positions are ≥ 0 anyway) -/
def settleSeq (s : St) (op : Op) (vb : Vb) : Nat :=
  match settle? s op with
  | some (v, o) => if v = vb then o.seq else 0
  | none => 0

/-- **one step**: for an assigned vBucket the position after the step is the maximum of the position
    before and the sequence number settled on that vBucket by the step (if any) -/
theorem position_is_running_max (s : St) (op : Op) (vb : Vb) (hin : inSession op = true)
    (hr : inRange s.cfg vb = true) :
    posSeq (step s op).1 vb = max (posSeq s vb) (settleSeq s op vb) := by
  rw [posSeq_applySettle s _ _ (step_offsets_eq s hin) vb]
  unfold settleSeq
  cases settle? s op with
  | none => simp [posAfter]
  | some p =>
    obtain ⟨v, o⟩ := p
    simp only [posAfter]
    by_cases hv : v = vb
    · subst hv
      by_cases hle : posSeq s v ≤ o.seq
      · rw [if_pos ⟨rfl, hr, hle⟩]; simp; omega
      · rw [if_neg (fun h => hle h.2.2)]; simp; omega
    · have hv' : ¬ vb = v := fun e => hv e.symm
      rw [if_neg (fun h => hv' h.1)]; simp [hv]

/-- a vBucket outside the assigned range never moves -/
theorem position_out_of_range (s : St) (op : Op) (vb : Vb) (hin : inSession op = true)
    (hr : inRange s.cfg vb = false) : posSeq (step s op).1 vb = posSeq s vb := by
  rw [posSeq_applySettle s _ _ (step_offsets_eq s hin) vb]
  cases settle? s op with
  | none => rfl
  | some p =>
    obtain ⟨v, o⟩ := p
    simp only [posAfter]
    by_cases hv : vb = v
    · subst hv; rw [if_neg]; simp [hr]
    · rw [if_neg (fun h => hv h.1)]

/-- the settles of `vb` along a run (0 where an op settles nothing on `vb`) -/
def settleSeqs : St → List Op → Vb → List Nat
  | _, [], _ => []
  | s, op :: r, vb => settleSeq s op vb :: settleSeqs (step s op).1 r vb

/-- **runs**: the final position of an assigned vBucket is the maximum of the resume position and
    all sequence numbers settled on it, whatever the order and repetition of the ops. The ops are
    in-session, which excludes a rebalance: it changes the range and re-loads the positions from the
    store, so the running maximum starts again from the re-loaded position (`rebalance_resume_pos`). -/
theorem position_is_running_max_run (s : St) (ops : List Op) (vb : Vb) (hin : ∀ op ∈ ops, inSession op = true)
    (hr : inRange s.cfg vb = true) :
    posSeq (run s ops) vb = (settleSeqs s ops vb).foldl max (posSeq s vb) := by
  induction ops generalizing s with
  | nil => rfl
  | cons op r ih =>
    rw [run_cons, settleSeqs, List.foldl_cons,
      ih (step s op).1 (fun o ho => hin o (List.mem_cons_of_mem _ ho)) (by rw [step_cfg_of_inSession s (hin op List.mem_cons_self)]; exact hr),
      position_is_running_max s op vb (hin op List.mem_cons_self) hr]

/-! ### acknowledgements in any order, with any repetition -/

theorem foldl_max_le_iff (l : List Nat) (a b : Nat) : l.foldl max a ≤ b ↔ a ≤ b ∧ ∀ y ∈ l, y ≤ b := by
  induction l generalizing a with
  | nil => simp
  | cons x t ih =>
    rw [List.foldl_cons, ih]
    simp only [List.mem_cons, forall_eq_or_imp]
    constructor
    · rintro ⟨h1, h2⟩; exact ⟨by omega, by omega, h2⟩
    · rintro ⟨h1, h2, h3⟩; exact ⟨by omega, h3⟩

/-- `foldl max` depends only on the set of values -/
theorem foldl_max_congr (l1 l2 : List Nat) (a : Nat) (h : ∀ y, y ∈ l1 ↔ y ∈ l2) : l1.foldl max a = l2.foldl max a := by
  apply Nat.le_antisymm
  · rw [foldl_max_le_iff]
    have := (foldl_max_le_iff l2 a (l2.foldl max a)).1 (Nat.le_refl _)
    exact ⟨this.1, fun y hy => this.2 y ((h y).1 hy)⟩
  · rw [foldl_max_le_iff]
    have := (foldl_max_le_iff l1 a (l1.foldl max a)).1 (Nat.le_refl _)
    exact ⟨this.1, fun y hy => this.2 y ((h y).2 hy)⟩

/-- an acknowledgement changes neither the context list nor the session number, so what a later
    acknowledgement settles can be read off the initial state -/
theorem settleSeq_ack_run (s : St) (is : List Nat) (i : Nat) (vb : Vb) :
    settleSeq (run s (is.map Op.ack)) (.ack i) vb = settleSeq s (.ack i) vb := by
  have : ∀ (l : List Nat) (s : St), (run s (l.map Op.ack)).ctxs = s.ctxs ∧ (run s (l.map Op.ack)).sess = s.sess := by
    intro l
    induction l with
    | nil => intro s; exact ⟨rfl, rfl⟩
    | cons j t ih =>
      intro s
      rw [List.map_cons, run_cons]
      obtain ⟨h1, h2⟩ := ih (step s (.ack j)).1
      rw [h1, h2]
      exact ⟨step_ctxs s rfl, step_sess s rfl⟩
  obtain ⟨h1, h2⟩ := this is s
  simp only [settleSeq, settle?, h1, h2]

theorem settleSeqs_acks (s : St) (is : List Nat) (vb : Vb) :
    settleSeqs s (is.map Op.ack) vb = is.map fun i => settleSeq s (.ack i) vb := by
  induction is generalizing s with
  | nil => rfl
  | cons j t ih =>
    rw [List.map_cons, settleSeqs, ih, List.map_cons]
    congr 1
    apply List.map_congr_left
    intro i _
    exact settleSeq_ack_run s [j] i vb

/-- acknowledging the delivered events of a session in any order and with any repetition leads to
    the same position: it only depends on *which* contexts were acknowledged -/
theorem ack_order_irrelevant (s : St) (is js : List Nat) (vb : Vb) (hr : inRange s.cfg vb = true)
    (h : ∀ i, i ∈ is ↔ i ∈ js) :
    posSeq (run s (is.map Op.ack)) vb = posSeq (run s (js.map Op.ack)) vb := by
  have hin : ∀ (l : List Nat), ∀ op ∈ l.map Op.ack, inSession op = true := by
    intro l op hop; obtain ⟨i, _, rfl⟩ := List.mem_map.1 hop; rfl
  rw [position_is_running_max_run s _ vb (hin is) hr, position_is_running_max_run s _ vb (hin js) hr,
    settleSeqs_acks, settleSeqs_acks]
  apply foldl_max_congr
  intro y
  simp only [List.mem_map]
  constructor
  · rintro ⟨i, hi, rfl⟩; exact ⟨i, (h i).1 hi, rfl⟩
  · rintro ⟨i, hi, rfl⟩; exact ⟨i, (h i).2 hi, rfl⟩


/-! ## 5. acknowledgements outside the assigned range -/

/-- an acknowledgement for a vBucket outside the assigned range only raises the flag -/
theorem out_of_range_ack_noop (s : St) (p : Pending) (h : inRange s.cfg p.vb = false) :
    (ack s p).1 = { s with anyDirty := true } ∧ (ack s p).2 = [] := by
  have ha : accepts s p.vb p.off = false := by simp [accepts, h]
  rw [ack_eq, setOffset_of_not_accepts true ha]
  exact ⟨rfl, rfl⟩

/-- … hence store, positions and dirty maps are untouched -/
theorem out_of_range_ack_frame (s : St) (p : Pending) (h : inRange s.cfg p.vb = false) :
    (ack s p).1.store = s.store ∧ (ack s p).1.offsets = s.offsets ∧ (ack s p).1.dirtyMaps = s.dirtyMaps ∧
    (ack s p).1.savers = s.savers := by
  rw [(out_of_range_ack_noop s p h).1]; exact ⟨rfl, rfl, rfl, rfl⟩

/-- only assigned vBuckets have a position, and every dump a saver holds mentions only those -/
def Inv_range (s : St) : Prop :=
  (∀ vb, s.offsets.has vb = true → inRange s.cfg vb = true) ∧
  (∀ k st d, (k, SaverPc.dumped st d) ∈ s.savers → ∀ q ∈ st, inRange s.cfg q.1 = true)

theorem inv_range_init (c : Cfg) : Inv_range { cfg := c } := by
  constructor
  · intro vb h; simp [AMap.has] at h
  · intro k st d h; simp at h

theorem dumpState_in_range {s : St} (h : Inv_range s) : ∀ q ∈ dumpState s, inRange s.cfg q.1 = true := by
  intro q hq
  obtain ⟨o, ho, _⟩ := mem_dumpState hq
  exact h.1 q.1 ((AMap.has_iff_mem_keys _ _).2 (AMap.mem_keys_of_mem ho))

/-- `Inv_range` is preserved by every op. A rebalance re-establishes it for the NEW range: it is
    only carried out with no saver in flight, and afterwards exactly the vBuckets of the new range
    have a position (none at all when the load fail-stops); a refused rebalance changes nothing.
    `.reopen` changes neither positions, nor savers, nor the range. -/
theorem step_inv_range (s : St) (op : Op) (h : Inv_range s) : Inv_range (step s op).1 := by
  constructor
  · -- positions
    intro vb hvb
    by_cases hin : inSession op = true
    · rw [step_cfg_of_inSession s hin]
      rw [step_offsets_eq s hin] at hvb
      cases hx : settle? s op with
      | none => rw [hx] at hvb; exact h.1 vb hvb
      | some p =>
        obtain ⟨v, o⟩ := p
        rw [hx] at hvb
        simp only [applySettle] at hvb
        split at hvb
        · rename_i ha
          rw [AMap.has_set] at hvb
          simp only [Bool.or_eq_true, decide_eq_true_eq] at hvb
          rcases hvb with rfl | hvb
          · exact ((accepts_iff s vb o).1 ha).1
          · exact h.1 vb hvb
        · exact h.1 vb hvb
    · cases op <;> simp [inSession] at hin
      case setStore v d =>
        have : (step s (.setStore v d)).1.offsets = s.offsets := step_offsets s rfl
        rw [step_cfg s rfl]
        rw [this] at hvb; exact h.1 vb hvb
      case setFlog v u =>
        have : (step s (.setFlog v u)).1.offsets = s.offsets := step_offsets s rfl
        rw [step_cfg s rfl]
        rw [this] at hvb; exact h.1 vb hvb
      case «open» =>
        rw [step_cfg s rfl]
        simp only [step] at hvb
        by_cases h0 : s.isOpen = true
        · rw [openSession_of_isOpen h0] at hvb; exact h.1 vb hvb
        · have h0 : s.isOpen = false := by simpa using h0
          cases hl : load (openBase s) with
          | none => rw [openSession_of_load_none h0 hl] at hvb; simp [openBase, AMap.has] at hvb
          | some r =>
            obtain ⟨offs, dirty, any⟩ := r
            rw [openSession_of_load_some h0 hl] at hvb
            simp only [] at hvb
            rw [AMap.has_iff_mem_keys, load_keys hl] at hvb
            exact (inRange_iff_mem_vbRange _ _).2 hvb
      case close =>
        rw [step_cfg s rfl]
        simp only [step, closeSession] at hvb
        split at hvb
        · exact h.1 vb hvb
        · simp [AMap.has] at hvb
      case crash => simp [step, crash, AMap.has] at hvb
      case rebalance lo hi =>
        simp only [step] at hvb ⊢
        rcases rebalanceSession_cases s lo hi with ⟨_, e⟩ | ⟨_, _, _, _, e⟩ | ⟨offs, dirty, any, _, _, _, hl, e⟩
        · rw [e] at hvb ⊢; exact h.1 vb hvb
        · rw [e] at hvb; simp [rebalBase, closedOf, AMap.has] at hvb
        · rw [e] at hvb ⊢
          simp only [rebalDone_offsets, rebalDone_cfg] at hvb ⊢
          rw [AMap.has_iff_mem_keys, load_keys hl, rebalBase_cfg] at hvb
          exact (inRange_iff_mem_vbRange _ _).2 hvb
  · -- dumps held by savers
    intro k st d hk q hq
    rcases step_cfg_cases s op with hc | ⟨lo, hi, rfl, _⟩
    · rw [hc]
      rcases step_savers_dumped hk with hk | rfl
      · exact h.2 k st d hk q hq
      · exact dumpState_in_range h q hq
    · -- a rebalance is refused (nothing changes) unless no saver is in flight
      have hsv : (step s (.rebalance lo hi)).1.savers = s.savers := rebalanceSession_savers s lo hi
      rw [hsv] at hk
      show inRange (rebalanceSession s lo hi).1.cfg q.1 = true
      rcases rebalanceSession_cases s lo hi with ⟨_, e⟩ | ⟨_, hs, _⟩ | ⟨_, _, _, _, hs, _⟩
      · rw [e]; exact h.2 k st d hk q hq
      · rw [hs] at hk; cases hk
      · rw [hs] at hk; cases hk

theorem run_inv_range (s : St) (ops : List Op) (h : Inv_range s) : Inv_range (run s ops) :=
  run_induction (P := Inv_range) (ok := fun _ => True) (fun s op _ => step_inv_range s op) s ops (fun _ _ => trivial) h

/-- no step ever hands the store, or reports as written, a document for a vBucket outside the
    assigned range -/
theorem step_writes_in_range (s : St) (op : Op) (h : Inv_range s) :
    (∀ st d, Obsv.saveCall st d ∈ (step s op).2 → ∀ q ∈ st, inRange s.cfg q.1 = true) ∧
    (∀ w, Obsv.written w ∈ (step s op).2 → ∀ q ∈ w, inRange s.cfg q.1 = true) := by
  constructor
  · intro st d hs q hq
    rw [step_saveCall hs] at hq
    exact dumpState_in_range h q hq
  · intro w hw q hq
    rcases step_written hw with ⟨k, st, d, hk, hsub⟩ | hsub
    · exact h.2 k st d hk q (hsub q hq).1
    · exact dumpState_in_range h q (hsub q hq).1

/-- what a save reports mentions only vBuckets that have a position -/
theorem saveAll_mentions_entries (s : St) (res : StoreRes) :
    (∀ st d, Obsv.saveCall st d ∈ (saveAll s res).2 → ∀ q ∈ st, s.offsets.has q.1 = true) ∧
    (∀ w, Obsv.written w ∈ (saveAll s res).2 → ∀ q ∈ w, s.offsets.has q.1 = true) := by
  have hd : ∀ q ∈ dumpState s, s.offsets.has q.1 = true := by
    intro q hq
    obtain ⟨o, ho, _⟩ := mem_dumpState hq
    exact (AMap.has_iff_mem_keys _ _).2 (AMap.mem_keys_of_mem ho)
  constructor
  · intro st d hs q hq
    have : Obsv.saveCall st d ∈ (step s (.save res)).2 := hs
    rw [step_saveCall this] at hq
    exact hd q hq
  · intro w hw q hq
    rw [saveAll_eq] at hw
    (repeat' split at hw) <;> simp at hw <;> (subst hw; exact hd q (mem_mdWrite_written hq).1)

/-- an out-of-range acknowledgement followed by a save: no document for that vBucket is handed to
    the store or written, and the store keeps whatever it had for it -/
theorem out_of_range_ack_then_save (s : St) (p : Pending) (res : StoreRes) (hinv : Inv_range s)
    (h : inRange s.cfg p.vb = false) :
    (∀ st d, Obsv.saveCall st d ∈ (saveAll (ack s p).1 res).2 → ∀ q ∈ st, q.1 ≠ p.vb) ∧
    (∀ w, Obsv.written w ∈ (saveAll (ack s p).1 res).2 → ∀ q ∈ w, q.1 ≠ p.vb) ∧
    (saveAll (ack s p).1 res).1.store.get? p.vb = s.store.get? p.vb := by
  have hno : (ack s p).1.offsets.has p.vb = false := by
    rw [(out_of_range_ack_frame s p h).2.1]
    cases hh : s.offsets.has p.vb with
    | false => rfl
    | true => rw [hinv.1 _ hh] at h; cases h
  obtain ⟨h1, h2⟩ := saveAll_mentions_entries (ack s p).1 res
  refine ⟨?_, ?_, ?_⟩
  · intro st d hs q hq e
    have := h1 st d hs q hq; rw [e, hno] at this; cases this
  · intro w hw q hq e
    have := h2 w hw q hq; rw [e, hno] at this; cases this
  · -- the store entry of p.vb
    have hst : (ack s p).1.store = s.store := (out_of_range_ack_frame s p h).1
    have hnw : ∀ (st : List (Vb × Doc)) (d : List Vb),
        p.vb ∉ AMap.keys (mdWrite (ack s p).1 (dumpState (ack s p).1) d res).2 := by
      intro st d hk
      obtain ⟨a, ha⟩ := AMap.exists_mem_of_mem_keys hk
      obtain ⟨o, ho, _⟩ := mem_dumpState (mem_mdWrite_written ha).1
      have := (AMap.has_iff_mem_keys _ _).2 (AMap.mem_keys_of_mem ho)
      rw [hno] at this; cases this
    rw [saveAll_eq, ← hst]
    (repeat' split) <;> first | rfl | exact mdWrite_get?_of_not_written (hnw [] _)

/-! ### acknowledgements of earlier contexts after a rebalance

`stream.Rebalance` keeps the stream object: the contexts handed out before it stay callable
(`sess` is not bumped, `ctxs` is not cleared) and their `Ack` closures now run `setOffset` against the
NEW range and the positions loaded again from the store. -/

/-- the `Ack` closure of a context of the current stream object -/
theorem step_ack_of_ctx {s : St} {i : Nat} {p : Pending} (h : s.ctxs[i]? = some p) (hp : p.sess = s.sess) :
    step s (.ack i) = ack s p := by
  simp [step, h, hp]

/-- a rebalance (carried out or refused) keeps the contexts and the session number: a context handed
    out before it is still acknowledged by the `Ack` closure, now on the state the rebalance left -/
theorem step_rebalance_ack (s : St) (lo hi : Vb) {i : Nat} {p : Pending} (h : s.ctxs[i]? = some p)
    (hp : p.sess = s.sess) :
    step (step s (.rebalance lo hi)).1 (.ack i) = ack (step s (.rebalance lo hi)).1 p :=
  step_ack_of_ctx (by rw [step_ctxs s rfl]; exact h) (by rw [step_sess s rfl]; exact hp)

/-- a rebalance that is carried out (stream open, no saver in flight, non-empty range) installs the
    new range, whether its load succeeds or fail-stops -/
theorem rebalance_cfg_new {s : St} {lo hi : Vb} (h0 : s.isOpen = true) (hs : s.savers = []) (hr : lo ≤ hi) :
    (step s (.rebalance lo hi)).1.cfg = { s.cfg with lo := lo, hi := hi } := by
  show (rebalanceSession s lo hi).1.cfg = _
  cases hl : load (rebalBase s lo hi) with
  | none => rw [rebalanceSession_of_load_none h0 hs hr hl]; rfl
  | some r => obtain ⟨offs, dirty, any⟩ := r; rw [rebalanceSession_of_load_some h0 hs hr hl]; rfl

/-- the state a successful rebalance leaves -/
theorem rebalance_done {s : St} {lo hi : Vb} {offs : AMap Offset} {dirty : List Vb} {any : Bool}
    (h0 : s.isOpen = true) (hs : s.savers = []) (hr : lo ≤ hi)
    (hl : load (rebalBase s lo hi) = some (offs, dirty, any)) :
    (step s (.rebalance lo hi)).1 = rebalDone s lo hi offs dirty any := by
  show (rebalanceSession s lo hi).1 = _
  rw [rebalanceSession_of_load_some h0 hs hr hl]

/-- **ack_after_rebalance_out_of_range**: after a rebalance to `[lo, hi]` (whenever the new range was
    installed: `rebalance_cfg_new`, i.e. for the successful and for the fail-stop outcome alike) the
    late acknowledgement of a context handed out before it, for a vBucket that is no longer assigned,
    only raises the flag: no position, no dirty entry, no notification -/
theorem ack_after_rebalance_out_of_range (s : St) (lo hi : Vb) (i : Nat) (p : Pending)
    (hctx : s.ctxs[i]? = some p) (hp : p.sess = s.sess)
    (hcfg : (step s (.rebalance lo hi)).1.cfg = { s.cfg with lo := lo, hi := hi })
    (hout : ¬ (lo ≤ p.vb ∧ p.vb ≤ hi)) :
    step (step s (.rebalance lo hi)).1 (.ack i) = ({ (step s (.rebalance lo hi)).1 with anyDirty := true }, []) := by
  rw [step_rebalance_ack s lo hi hctx hp]
  have hr : inRange (step s (.rebalance lo hi)).1.cfg p.vb = false := by
    cases hh : inRange (step s (.rebalance lo hi)).1.cfg p.vb with
    | false => rfl
    | true => rw [hcfg] at hh; exact absurd ((inRange_iff _ _).1 hh) hout
  obtain ⟨h1, h2⟩ := out_of_range_ack_noop _ p hr
  exact Prod.ext h1 h2

/-- the same for a rebalance that is carried out -/
theorem ack_after_rebalance_out_of_range' (s : St) (lo hi : Vb) (i : Nat) (p : Pending)
    (hctx : s.ctxs[i]? = some p) (hp : p.sess = s.sess)
    (h0 : s.isOpen = true) (hs : s.savers = []) (hr : lo ≤ hi) (hout : ¬ (lo ≤ p.vb ∧ p.vb ≤ hi)) :
    step (step s (.rebalance lo hi)).1 (.ack i) = ({ (step s (.rebalance lo hi)).1 with anyDirty := true }, []) :=
  ack_after_rebalance_out_of_range s lo hi i p hctx hp (rebalance_cfg_new h0 hs hr) hout

/-- an acknowledgement for an assigned vBucket is `setOffset` against the position held: it is taken
    (one notification, the position becomes the acknowledged one) iff it is not behind that position,
    otherwise nothing is said and no position moves -/
theorem in_range_ack (s : St) (p : Pending) (h : inRange s.cfg p.vb = true) :
    (ack s p).2 = (if posSeq s p.vb ≤ p.off.seq then [.track p.vb p.off] else []) ∧
    (ack s p).1.offsets = (if posSeq s p.vb ≤ p.off.seq then s.offsets.set p.vb p.off else s.offsets) ∧
    (∀ v, posSeq (ack s p).1 v = if v = p.vb ∧ posSeq s p.vb ≤ p.off.seq then p.off.seq else posSeq s v) ∧
    (ack s p).1.anyDirty = true := by
  have ha := accepts_iff_pos s p.vb p.off
  refine ⟨?_, ?_, ?_, rfl⟩
  · rw [ack_out, setOffset_out]
    by_cases hle : posSeq s p.vb ≤ p.off.seq
    · rw [if_pos (ha.2 ⟨h, hle⟩), if_pos hle]
    · rw [if_neg (fun hh => hle (ha.1 hh).2), if_neg hle]
  · rw [ack_offsets, setOffset_offsets]
    by_cases hle : posSeq s p.vb ≤ p.off.seq
    · rw [if_pos (ha.2 ⟨h, hle⟩), if_pos hle]
    · rw [if_neg (fun hh => hle (ha.1 hh).2), if_neg hle]
  · intro v
    rw [posSeq_congr (ack_offsets s p) v, setOffset_pos']
    by_cases hc : v = p.vb ∧ posSeq s p.vb ≤ p.off.seq
    · rw [if_pos ⟨hc.1, h, hc.2⟩, if_pos hc]
    · rw [if_neg (fun hh => hc ⟨hh.1, hh.2.2⟩), if_neg hc]

/-- after a rebalance to `[lo, hi]` (whenever the new range was installed) the late acknowledgement
    of an earlier context for a vBucket of the new range goes through `setOffset` against whatever
    position the rebalance left: tracked iff not behind it -/
theorem ack_after_rebalance_in_range_any (s : St) (lo hi : Vb) (i : Nat) (p : Pending)
    (hctx : s.ctxs[i]? = some p) (hp : p.sess = s.sess)
    (hcfg : (step s (.rebalance lo hi)).1.cfg = { s.cfg with lo := lo, hi := hi })
    (hin : lo ≤ p.vb ∧ p.vb ≤ hi) :
    (step (step s (.rebalance lo hi)).1 (.ack i)).2 =
      (if posSeq (step s (.rebalance lo hi)).1 p.vb ≤ p.off.seq then [.track p.vb p.off] else []) ∧
    (∀ v, posSeq (step (step s (.rebalance lo hi)).1 (.ack i)).1 v =
      if v = p.vb ∧ posSeq (step s (.rebalance lo hi)).1 p.vb ≤ p.off.seq then p.off.seq
      else posSeq (step s (.rebalance lo hi)).1 v) := by
  rw [step_rebalance_ack s lo hi hctx hp]
  have hr : inRange (step s (.rebalance lo hi)).1.cfg p.vb = true := by
    rw [hcfg]; exact (inRange_iff _ _).2 hin
  obtain ⟨h1, _, h3, _⟩ := in_range_ack _ p hr
  exact ⟨h1, h3⟩

/-- **ack_after_rebalance_in_range**: after a successful rebalance to `[lo, hi]` (`offs` is what
    `checkpoint.Load` returned for the new range) the late acknowledgement of a context handed out
    before it, for a vBucket `p.vb` of the new range, is compared with the RE-LOADED offset `o` of that
    vBucket — not with the position the stream had reached before the rebalance: it is tracked
    (notification `track p.vb p.off`, the position becomes `p.off`) iff `o.seq ≤ p.off.seq`, otherwise
    nothing is said and no position changes -/
theorem ack_after_rebalance_in_range (s : St) (lo hi : Vb) (i : Nat) (p : Pending)
    (hctx : s.ctxs[i]? = some p) (hp : p.sess = s.sess)
    {offs : AMap Offset} {dirty : List Vb} {any : Bool}
    (h0 : s.isOpen = true) (hs : s.savers = []) (hr : lo ≤ hi)
    (hl : load (rebalBase s lo hi) = some (offs, dirty, any))
    (hin : lo ≤ p.vb ∧ p.vb ≤ hi) :
    ∃ o, offs.get? p.vb = some o ∧
      (step s (.rebalance lo hi)).1.offsets = offs ∧
      (step (step s (.rebalance lo hi)).1 (.ack i)).2 = (if o.seq ≤ p.off.seq then [.track p.vb p.off] else []) ∧
      (step (step s (.rebalance lo hi)).1 (.ack i)).1.offsets = (if o.seq ≤ p.off.seq then offs.set p.vb p.off else offs) ∧
      (∀ v, posSeq (step (step s (.rebalance lo hi)).1 (.ack i)).1 v =
        if v = p.vb ∧ o.seq ≤ p.off.seq then p.off.seq else posSeq (step s (.rebalance lo hi)).1 v) := by
  have hd := rebalance_done h0 hs hr hl
  have hoffs : (step s (.rebalance lo hi)).1.offsets = offs := by rw [hd]; rfl
  have hrng : inRange (step s (.rebalance lo hi)).1.cfg p.vb = true := by
    rw [rebalance_cfg_new h0 hs hr]; exact (inRange_iff _ _).2 hin
  have hk : p.vb ∈ AMap.keys offs := by
    rw [load_keys hl, rebalBase_cfg]
    exact (inRange_iff_mem_vbRange _ _).1 ((inRange_iff _ _).2 hin)
  obtain ⟨o, ho⟩ := (AMap.has_iff_exists _ _).1 ((AMap.has_iff_mem_keys _ _).2 hk)
  have hpos : posSeq (step s (.rebalance lo hi)).1 p.vb = o.seq := posSeq_of_get? (by rw [hoffs]; exact ho)
  obtain ⟨h1, h2, h3, _⟩ := in_range_ack _ p hrng
  rw [hpos] at h1 h2 h3
  rw [hoffs] at h2
  rw [step_rebalance_ack s lo hi hctx hp]
  exact ⟨o, ho, hoffs, h1, h2, h3⟩

/-- the re-loaded position: the stored document's seqno (0 without a document), or the current high
    seqno when the latest-reset applies — whatever the stream had reached before the rebalance -/
theorem rebalance_resume_pos (s : St) (lo hi : Vb) {offs : AMap Offset} {dirty : List Vb} {any : Bool}
    (h0 : s.isOpen = true) (hs : s.savers = []) (hr : lo ≤ hi)
    (hl : load (rebalBase s lo hi) = some (offs, dirty, any)) (vb : Vb) (hin : lo ≤ vb ∧ vb ≤ hi) :
    posSeq (step s (.rebalance lo hi)).1 vb = ((s.store.get? vb).getD Doc.zero).seq ∨
    posSeq (step s (.rebalance lo hi)).1 vb = (s.high.get? vb).getD 0 := by
  have hvb : vb ∈ vbRange { s.cfg with lo := lo, hi := hi } :=
    (inRange_iff_mem_vbRange _ _).1 ((inRange_iff _ _).2 hin)
  rw [rebalance_done h0 hs hr hl]
  rcases load_some_cases hl with ⟨_, ho⟩ | ⟨_, _, _, ho⟩
  · right
    simp only [posSeq, rebalDone_offsets, ho, AMap.get?_ofKeys]
    simp [hvb]
  · left
    simp only [posSeq, rebalDone_offsets, ho, AMap.get?_ofKeys]
    simp [hvb, Doc.toOffset]

/-! ## 6. acknowledgements on different vBuckets commute -/

/-- same elements (the dirty "map" is a set; only membership is ever read) -/
def sameSet (a b : List Vb) : Prop := ∀ x, x ∈ a ↔ x ∈ b

theorem sameSet_refl (a : List Vb) : sameSet a a := fun _ => Iff.rfl
theorem sameSet_symm {a b : List Vb} (h : sameSet a b) : sameSet b a := fun x => (h x).symm
theorem sameSet_trans {a b c : List Vb} (h1 : sameSet a b) (h2 : sameSet b c) : sameSet a c :=
  fun x => (h1 x).trans (h2 x)

/-- saver program counters up to the order of the captured dirty list -/
def pcEquiv : SaverPc → SaverPc → Prop
  | .wantLock g, .wantLock g' => g = g'
  | .dumped st d, .dumped st' d' => st = st' ∧ sameSet d d'
  | .stored, .stored => True
  | _, _ => False

theorem pcEquiv_refl (p : SaverPc) : pcEquiv p p := by
  cases p <;> simp [pcEquiv, sameSet_refl]

/-- saver tables up to `pcEquiv` (same keys in the same order) -/
def saversEquiv : AMap SaverPc → AMap SaverPc → Prop
  | [], [] => True
  | (k, a) :: r, (k', b) :: r' => k = k' ∧ pcEquiv a b ∧ saversEquiv r r'
  | _, _ => False

/-- state equivalence: everything equal, except that dirty lists (current, older generations, and
    those captured by savers in flight) may be permuted -/
structure St.equiv (s t : St) : Prop where
  cfg : s.cfg = t.cfg
  store : s.store = t.store
  high : s.high = t.high
  flog : s.flog = t.flog
  sess : s.sess = t.sess
  isOpen : s.isOpen = t.isOpen
  everOpened : s.everOpened = t.everOpened
  offsets : s.offsets = t.offsets
  curGen : s.curGen = t.curGen
  nextGen : s.nextGen = t.nextGen
  anyDirty : s.anyDirty = t.anyDirty
  observers : s.observers = t.observers
  obsNil : s.obsNil = t.obsNil
  ctxs : s.ctxs = t.ctxs
  lockHeld : s.lockHeld = t.lockHeld
  dirty : ∀ g, sameSet ((s.dirtyMaps.get? g).getD []) ((t.dirtyMaps.get? g).getD [])
  savers : saversEquiv s.savers t.savers

theorem saversEquiv_refl (l : AMap SaverPc) : saversEquiv l l := by
  induction l with
  | nil => trivial
  | cons a t ih => obtain ⟨k, pc⟩ := a; exact ⟨rfl, pcEquiv_refl _, ih⟩

theorem St.equiv_refl (s : St) : St.equiv s s :=
  ⟨rfl, rfl, rfl, rfl, rfl, rfl, rfl, rfl, rfl, rfl, rfl, rfl, rfl, rfl, rfl, fun _ => sameSet_refl _,
   saversEquiv_refl _⟩

/-- an acknowledgement on another vBucket does not change whether this one is accepted -/
theorem accepts_ack_other (s : St) (p : Pending) (v : Vb) (o : Offset) (h : v ≠ p.vb) :
    accepts (ack s p).1 v o = accepts s v o := by
  unfold accepts
  rw [ack_cfg, ack_offsets, setOffset_get?_other _ _ _ _ h]

/-- the dirty list of generation `g` after an acknowledgement, as a set -/
theorem mem_dirty_ack (s : St) (p : Pending) (g : Nat) (x : Vb) :
    x ∈ ((ack s p).1.dirtyMaps.get? g).getD [] ↔
      (g = s.curGen ∧ x = p.vb ∧ accepts s p.vb p.off = true) ∨ x ∈ (s.dirtyMaps.get? g).getD [] := by
  rw [ack_dirtyMaps]
  by_cases hg : g = s.curGen
  · subst hg
    have := mem_curDirty_setOffset s p.vb p.off true x
    simp only [curDirty, setOffset_curGen] at this
    rw [this]; simp
  · rw [setOffset_dirtyMaps_other _ _ _ _ _ hg]; simp [hg]

/-- **ack_commute**: two acknowledgements on different vBuckets (one of which already has a position,
    as every assigned vBucket has after `open`) commute — same positions, same notifications, same
    everything, only the order inside the current dirty list may differ -/
theorem ack_commute (s : St) (p1 p2 : Pending) (hne : p1.vb ≠ p2.vb) (h1 : s.offsets.has p1.vb = true) :
    (ack (ack s p1).1 p2).1.offsets = (ack (ack s p2).1 p1).1.offsets ∧
    St.equiv (ack (ack s p1).1 p2).1 (ack (ack s p2).1 p1).1 ∧
    (ack (ack s p2).1 p1).2 = (ack s p1).2 ∧ (ack (ack s p1).1 p2).2 = (ack s p2).2 := by
  have ha12 := accepts_ack_other s p1 p2.vb p2.off (Ne.symm hne)
  have ha21 := accepts_ack_other s p2 p1.vb p1.off hne
  have hoff : (ack (ack s p1).1 p2).1.offsets = (ack (ack s p2).1 p1).1.offsets := by
    simp only [ack_offsets, setOffset_offsets]
    have e1 : accepts (ack s p1).1 p2.vb p2.off = accepts s p2.vb p2.off := ha12
    have e2 : accepts (ack s p2).1 p1.vb p1.off = accepts s p1.vb p1.off := ha21
    rw [e1, e2]
    by_cases a1 : accepts s p1.vb p1.off = true <;> by_cases a2 : accepts s p2.vb p2.off = true <;>
      simp only [a1, a2, if_true, if_false, Bool.false_eq_true]
    exact AMap.set_comm_of_has _ _ hne h1
  refine ⟨hoff, ?_, ?_, ?_⟩
  · refine ⟨by simp, by simp, by simp, by simp, by simp, by simp, by simp, hoff, by simp, by simp, by simp, by simp,
      by simp, by simp, by simp, ?_, ?_⟩
    · intro g x
      rw [mem_dirty_ack, mem_dirty_ack, mem_dirty_ack, mem_dirty_ack, ha12, ha21]
      simp only [ack_curGen]
      constructor
      · rintro (h | h | h)
        · exact Or.inr (Or.inl h)
        · exact Or.inl h
        · exact Or.inr (Or.inr h)
      · rintro (h | h | h)
        · exact Or.inr (Or.inl h)
        · exact Or.inl h
        · exact Or.inr (Or.inr h)
    · simp only [ack_savers]; exact saversEquiv_refl _
  · rw [ack_out, ack_out, setOffset_out, setOffset_out, ha21]
  · rw [ack_out, ack_out, setOffset_out, setOffset_out, ha12]


/-! ### congruence: equivalent states stay equivalent under every op -/

theorem sameSet_contains {a b : List Vb} (h : sameSet a b) (x : Vb) : a.contains x = b.contains x := by
  have := h x
  cases ha : a.contains x <;> cases hb : b.contains x <;> simp_all

theorem equiv_curDirty {s t : St} (h : St.equiv s t) : sameSet (curDirty s) (curDirty t) := by
  have := h.dirty s.curGen
  unfold curDirty; rw [← h.curGen]; exact this

theorem accepts_equiv {s t : St} (h : St.equiv s t) (vb : Vb) (o : Offset) : accepts s vb o = accepts t vb o :=
  (accepts_congr h.cfg.symm h.offsets.symm vb o).symm

theorem saversEquiv_get? {m m' : AMap SaverPc} (h : saversEquiv m m') (k : Nat) :
    match m.get? k, m'.get? k with
    | some a, some b => pcEquiv a b
    | none, none => True
    | _, _ => False := by
  induction m generalizing m' with
  | nil => cases m' with
    | nil => simp
    | cons b r => cases b; simp [saversEquiv] at h
  | cons a r ih =>
    cases m' with
    | nil => cases a; simp [saversEquiv] at h
    | cons b r' =>
      obtain ⟨ka, pa⟩ := a; obtain ⟨kb, pb⟩ := b
      obtain ⟨rfl, hp, hr⟩ := h
      simp only [AMap.get?_cons]
      by_cases hk : ka = k
      · simp [hk, hp]
      · simp only [hk, if_false]; exact ih hr

theorem saversEquiv_has {m m' : AMap SaverPc} (h : saversEquiv m m') (k : Nat) : m.has k = m'.has k := by
  have := saversEquiv_get? h k
  unfold AMap.has
  cases h1 : m.get? k <;> cases h2 : m'.get? k <;> simp [h1, h2] at this ⊢

theorem saversEquiv_set {m m' : AMap SaverPc} (h : saversEquiv m m') (k : Nat) {a b : SaverPc} (hab : pcEquiv a b) :
    saversEquiv (m.set k a) (m'.set k b) := by
  induction m generalizing m' with
  | nil => cases m' with
    | nil => exact ⟨rfl, hab, trivial⟩
    | cons b r => cases b; simp [saversEquiv] at h
  | cons x r ih =>
    cases m' with
    | nil => cases x; simp [saversEquiv] at h
    | cons y r' =>
      obtain ⟨ka, pa⟩ := x; obtain ⟨kb, pb⟩ := y
      obtain ⟨rfl, hp, hr⟩ := h
      by_cases hk : ka = k
      · simp only [AMap.set, hk, if_true]; exact ⟨rfl, hab, hr⟩
      · simp only [AMap.set, hk, if_false]; exact ⟨rfl, hp, ih hr⟩

theorem saversEquiv_drop {m m' : AMap SaverPc} (h : saversEquiv m m') (k : Nat) :
    saversEquiv (m.filter fun p => p.1 ≠ k) (m'.filter fun p => p.1 ≠ k) := by
  induction m generalizing m' with
  | nil => cases m' with
    | nil => trivial
    | cons b r => cases b; simp [saversEquiv] at h
  | cons x r ih =>
    cases m' with
    | nil => cases x; simp [saversEquiv] at h
    | cons y r' =>
      obtain ⟨ka, pa⟩ := x; obtain ⟨kb, pb⟩ := y
      obtain ⟨rfl, hp, hr⟩ := h
      by_cases hk : ka = k
      · simp only [List.filter_cons, hk, ne_eq, not_true_eq_false, decide_false, Bool.false_eq_true, if_false]
        exact ih hr
      · simp only [List.filter_cons, hk, ne_eq, not_false_eq_true, decide_true, if_true]
        exact ⟨rfl, hp, ih hr⟩

theorem mdWrite_equiv {s t : St} (h : St.equiv s t) (st : List (Vb × Doc)) {d d' : List Vb} (hd : sameSet d d')
    (res : StoreRes) : mdWrite s st d res = mdWrite t st d' res := by
  have : (fun (x : Vb × Doc) => match x with | (vb, _) => d.contains vb) =
      (fun (x : Vb × Doc) => match x with | (vb, _) => d'.contains vb) := by
    funext x; obtain ⟨vb, _⟩ := x; exact sameSet_contains hd vb
  unfold mdWrite
  rw [h.cfg, h.store, this]

theorem storeSucceeds_equiv {s t : St} (h : St.equiv s t) (res : StoreRes) : storeSucceeds s res = storeSucceeds t res :=
  (storeSucceeds_congr h.cfg.symm res).symm

theorem dumpState_equiv {s t : St} (h : St.equiv s t) : dumpState s = dumpState t := by
  unfold dumpState; rw [h.offsets]

/-- the dirty list of generation `g` after `setOffset`, as a set -/
theorem mem_dirty_setOffset (s : St) (vb : Vb) (o : Offset) (d : Bool) (g : Nat) (x : Vb) :
    x ∈ ((setOffset s vb o d).1.dirtyMaps.get? g).getD [] ↔
      (g = s.curGen ∧ x = vb ∧ d = true ∧ accepts s vb o = true) ∨ x ∈ (s.dirtyMaps.get? g).getD [] := by
  by_cases hg : g = s.curGen
  · subst hg
    have := mem_curDirty_setOffset s vb o d x
    simp only [curDirty, setOffset_curGen] at this
    rw [this]; simp
  · rw [setOffset_dirtyMaps_other _ _ _ _ _ hg]; simp [hg]

/-- splits `St.equiv` into named goals -/
macro "equiv_split" : tactic =>
  `(tactic| refine ⟨?cfg, ?store, ?high, ?flog, ?sess, ?isOpen, ?everOpened, ?offsets, ?curGen, ?nextGen, ?anyDirty,
      ?observers, ?obsNil, ?ctxs, ?lockHeld, ?dirty, ?savers⟩)

theorem setOffset_equiv {s t : St} (h : St.equiv s t) (vb : Vb) (o : Offset) (d : Bool) :
    St.equiv (setOffset s vb o d).1 (setOffset t vb o d).1 ∧ (setOffset s vb o d).2 = (setOffset t vb o d).2 := by
  refine ⟨?_, by rw [setOffset_out, setOffset_out, accepts_equiv h]⟩
  equiv_split
  case offsets => rw [setOffset_offsets, setOffset_offsets, accepts_equiv h, h.offsets]
  case dirty =>
    intro g x
    rw [mem_dirty_setOffset, mem_dirty_setOffset, accepts_equiv h, h.curGen, h.dirty g x]
  case savers => simp only [setOffset_savers]; exact h.savers
  all_goals simp [h.cfg, h.store, h.high, h.flog, h.sess, h.isOpen, h.everOpened, h.curGen, h.nextGen, h.anyDirty,
    h.observers, h.obsNil, h.ctxs, h.lockHeld]


/-- closes the goals of `equiv_split` that are plain field equalities -/
macro "equiv_plain" h:ident : tactic =>
  `(tactic| simp [St.equiv.cfg $h, St.equiv.store $h, St.equiv.high $h, St.equiv.flog $h, St.equiv.sess $h,
      St.equiv.isOpen $h, St.equiv.everOpened $h, St.equiv.offsets $h, St.equiv.curGen $h, St.equiv.nextGen $h,
      St.equiv.anyDirty $h, St.equiv.observers $h, St.equiv.obsNil $h, St.equiv.ctxs $h, St.equiv.lockHeld $h])

theorem ack_equiv {s t : St} (h : St.equiv s t) (p : Pending) : St.equiv (ack s p).1 (ack t p).1 := by
  obtain ⟨h1, _⟩ := setOffset_equiv h p.vb p.off true
  exact ⟨h1.cfg, h1.store, h1.high, h1.flog, h1.sess, h1.isOpen, h1.everOpened, h1.offsets, h1.curGen, h1.nextGen,
    rfl, h1.observers, h1.obsNil, h1.ctxs, h1.lockHeld, h1.dirty, h1.savers⟩

theorem listen_equiv {s t : St} (h : St.equiv s t) (vb : Vb) (le : LEvent) :
    St.equiv (listen s vb le).1 (listen t vb le).1 := by
  cases le with
  | marker => exact h
  | oso => exact h
  | seqAdv off => exact (setOffset_equiv h vb off true).1
  | sys k off => exact (setOffset_equiv h vb off true).1
  | doc d off coll tm =>
    by_cases hm : isMetaKey d.key = true
    · rw [listen_doc_meta _ _ _ _ _ hm, listen_doc_meta _ _ _ _ _ hm]; exact (setOffset_equiv h vb off false).1
    · have hm : isMetaKey d.key = false := by simpa using hm
      rw [listen_doc_user _ _ _ _ _ hm, listen_doc_user _ _ _ _ _ hm]
      exact ⟨h.cfg, h.store, h.high, h.flog, h.sess, h.isOpen, h.everOpened, h.offsets, h.curGen, h.nextGen,
        h.anyDirty, h.observers, h.obsNil, by simp [h.ctxs, h.sess], h.lockHeld, h.dirty, h.savers⟩

/-- replacing the observer table by the same table on both sides -/
theorem equiv_setObservers {s t : St} (h : St.equiv s t) (m : AMap Obs) :
    St.equiv { s with observers := m } { t with observers := m } :=
  ⟨h.cfg, h.store, h.high, h.flog, h.sess, h.isOpen, h.everOpened, h.offsets, h.curGen, h.nextGen,
    h.anyDirty, rfl, h.obsNil, h.ctxs, h.lockHeld, h.dirty, h.savers⟩

theorem evStep_equiv {s t : St} (h : St.equiv s t) (vb : Vb) (e : SrvEv) :
    St.equiv (evStep s vb e).1 (evStep t vb e).1 := by
  cases ho : s.observers.get? vb with
  | none =>
    have ho' : t.observers.get? vb = none := by rw [← h.observers]; exact ho
    rw [evStep_of_no_obs e ho, evStep_of_no_obs e ho']; exact h
  | some o =>
    have ho' : t.observers.get? vb = some o := by rw [← h.observers]; exact ho
    have hc : Obs.step t.cfg.obs o e = Obs.step s.cfg.obs o e := by rw [h.cfg]
    rw [evStep_of_obs e ho, evStep_of_obs e ho', hc, ← h.observers]
    have hs := equiv_setObservers h (s.observers.set vb (Obs.step s.cfg.obs o e).1)
    split
    · exact listen_equiv hs vb _
    all_goals exact hs

theorem svBegin_equiv {s t : St} (h : St.equiv s t) (k : Nat) : St.equiv (svBegin s k).1 (svBegin t k).1 := by
  have hh := saversEquiv_has h.savers k
  cases hk : s.savers.has k with
  | true => rw [svBegin_of_exists hk, svBegin_of_exists (hh ▸ hk)]; exact h
  | false =>
    have hk' : t.savers.has k = false := hh ▸ hk
    cases ha : s.anyDirty with
    | false => rw [svBegin_of_clean hk ha, svBegin_of_clean hk' (h.anyDirty ▸ ha)]; exact h
    | true =>
      rw [svBegin_of_dirty hk ha, svBegin_of_dirty hk' (h.anyDirty ▸ ha)]
      exact ⟨h.cfg, h.store, h.high, h.flog, h.sess, h.isOpen, h.everOpened, h.offsets, h.curGen, h.nextGen,
        h.anyDirty, h.observers, h.obsNil, h.ctxs, h.lockHeld, h.dirty,
        saversEquiv_set h.savers k (by rw [h.curGen]; exact pcEquiv_refl _)⟩


theorem svDump_equiv {s t : St} (h : St.equiv s t) (k : Nat) : St.equiv (svDump s k).1 (svDump t k).1 := by
  have hg := saversEquiv_get? h.savers k
  cases hk : s.savers.get? k with
  | none =>
    cases hk' : t.savers.get? k with
    | none => simp only [svDump, hk, hk']; exact h
    | some b => simp [hk, hk'] at hg
  | some a =>
    cases hk' : t.savers.get? k with
    | none => simp [hk, hk'] at hg
    | some b =>
      simp only [hk, hk'] at hg
      cases a <;> cases b <;> simp only [pcEquiv] at hg
      case wantLock.wantLock g g' =>
        subst hg
        cases hl : s.lockHeld with
        | true =>
          have hl' : t.lockHeld = true := h.lockHeld ▸ hl
          simp only [svDump, hk, hk', hl, hl', if_true]; exact h
        | false =>
          have hl' : t.lockHeld = false := h.lockHeld ▸ hl
          rw [svDump_of_wantLock hk hl, svDump_of_wantLock hk' hl']
          exact ⟨h.cfg, h.store, h.high, h.flog, h.sess, h.isOpen, h.everOpened, h.offsets, h.curGen, h.nextGen,
            h.anyDirty, h.observers, h.obsNil, h.ctxs, rfl, h.dirty,
            saversEquiv_set h.savers k ⟨dumpState_equiv h, h.dirty g⟩⟩
      all_goals first | (exact absurd hg id) | (simp only [svDump, hk, hk']; exact h)

theorem equiv_dropSaver {s t : St} (h : St.equiv s t) (k : Nat) : saversEquiv (dropSaver s k) (dropSaver t k) :=
  saversEquiv_drop h.savers k

theorem svStore_equiv {s t : St} (h : St.equiv s t) (k : Nat) (res : StoreRes) :
    St.equiv (svStore s k res).1 (svStore t k res).1 := by
  have hg := saversEquiv_get? h.savers k
  cases hk : s.savers.get? k with
  | none =>
    cases hk' : t.savers.get? k with
    | none => simp only [svStore, hk, hk']; exact h
    | some b => simp [hk, hk'] at hg
  | some a =>
    cases hk' : t.savers.get? k with
    | none => simp [hk, hk'] at hg
    | some b =>
      simp only [hk, hk'] at hg
      cases a <;> cases b <;> simp only [pcEquiv] at hg
      case dumped.dumped st d st' d' =>
        obtain ⟨rfl, hd⟩ := hg
        rw [svStore_of_dumped res hk, svStore_of_dumped res hk', storeSucceeds_equiv h, mdWrite_equiv h st hd]
        split
        · exact ⟨h.cfg, rfl, h.high, h.flog, h.sess, h.isOpen, h.everOpened, h.offsets, h.curGen, h.nextGen,
            h.anyDirty, h.observers, h.obsNil, h.ctxs, h.lockHeld, h.dirty,
            saversEquiv_set h.savers k trivial⟩
        · exact ⟨h.cfg, rfl, h.high, h.flog, h.sess, h.isOpen, h.everOpened, h.offsets, h.curGen, h.nextGen,
            h.anyDirty, h.observers, h.obsNil, h.ctxs, rfl, h.dirty, equiv_dropSaver h k⟩
      all_goals first | (exact absurd hg id) | (simp only [svStore, hk, hk']; exact h)

/-- a fresh, empty dirty map on both sides -/
theorem dirty_set_fresh {s t : St} (h : St.equiv s t) (n : Nat) (g : Nat) :
    sameSet (((s.dirtyMaps.set n []).get? g).getD []) (((t.dirtyMaps.set n []).get? g).getD []) := by
  rw [AMap.get?_set, AMap.get?_set]
  by_cases hg : g = n
  · simp [hg, sameSet_refl]
  · simp only [hg, if_false]; exact h.dirty g

theorem svUnmark_equiv {s t : St} (h : St.equiv s t) (k : Nat) : St.equiv (svUnmark s k).1 (svUnmark t k).1 := by
  have hg := saversEquiv_get? h.savers k
  cases hk : s.savers.get? k with
  | none =>
    cases hk' : t.savers.get? k with
    | none => simp only [svUnmark, hk, hk']; exact h
    | some b => simp [hk, hk'] at hg
  | some a =>
    cases hk' : t.savers.get? k with
    | none => simp [hk, hk'] at hg
    | some b =>
      simp only [hk, hk'] at hg
      cases a <;> cases b <;> simp only [pcEquiv] at hg
      case stored.stored =>
        rw [svUnmark_of_stored hk, svUnmark_of_stored hk']
        exact ⟨h.cfg, h.store, h.high, h.flog, h.sess, h.isOpen, h.everOpened, h.offsets, h.nextGen,
          by simp [h.nextGen], rfl, h.observers, h.obsNil, h.ctxs, rfl,
          by rw [h.nextGen]; exact dirty_set_fresh h t.nextGen, equiv_dropSaver h k⟩
      all_goals first | (exact absurd hg id) | (simp only [svUnmark, hk, hk']; exact h)

theorem saveAll_equiv {s t : St} (h : St.equiv s t) (res : StoreRes) :
    St.equiv (saveAll s res).1 (saveAll t res).1 := by
  rw [saveAll_eq, saveAll_eq, ← h.lockHeld, ← h.anyDirty, ← storeSucceeds_equiv h, ← dumpState_equiv h,
    ← mdWrite_equiv h (dumpState s) (equiv_curDirty h)]
  split
  · exact h
  · split
    · exact h
    · split
      · exact ⟨h.cfg, rfl, h.high, h.flog, h.sess, h.isOpen, h.everOpened, h.offsets, h.nextGen,
          by simp [h.nextGen], rfl, h.observers, h.obsNil, h.ctxs, rfl,
          by rw [h.nextGen]; exact dirty_set_fresh h t.nextGen, h.savers⟩
      · exact ⟨h.cfg, rfl, h.high, h.flog, h.sess, h.isOpen, h.everOpened, h.offsets, h.curGen, h.nextGen,
          rfl, h.observers, h.obsNil, h.ctxs, rfl, h.dirty, h.savers⟩


theorem openBase_equiv {s t : St} (h : St.equiv s t) : openBase s = openBase t := by
  simp [openBase, h.cfg, h.store, h.high, h.flog, h.sess, h.ctxs]

theorem openSession_equiv {s t : St} (h : St.equiv s t) : St.equiv (openSession s).1 (openSession t).1 := by
  cases h0 : s.isOpen with
  | true => rw [openSession_of_isOpen h0, openSession_of_isOpen (h.isOpen ▸ h0)]; exact h
  | false =>
    have h0' : t.isOpen = false := h.isOpen ▸ h0
    have hb := openBase_equiv h
    have hi : initObs s = initObs t := by funext v o; simp [initObs, h.flog]
    have e : (openSession s).1 = (openSession t).1 := by
      cases hl : load (openBase s) with
      | none => rw [openSession_of_load_none h0 hl, openSession_of_load_none h0' (hb ▸ hl), hb]
      | some r =>
        obtain ⟨offs, dirty, any⟩ := r
        rw [openSession_of_load_some h0 hl, openSession_of_load_some h0' (hb ▸ hl), hb, hi]
    rw [e]; exact St.equiv_refl _

theorem closeSession_equiv {s t : St} (h : St.equiv s t) : St.equiv (closeSession s).1 (closeSession t).1 := by
  simp only [closeSession, ← h.isOpen]
  split
  · exact h
  · exact ⟨h.cfg, h.store, h.high, h.flog, h.sess, rfl, h.everOpened, rfl, h.nextGen, by simp [h.nextGen],
      h.anyDirty, by simp [h.observers], rfl, h.ctxs, h.lockHeld,
      by rw [h.nextGen]; exact dirty_set_fresh h t.nextGen, h.savers⟩

theorem crash_equiv {s t : St} (h : St.equiv s t) : St.equiv (crash s).1 (crash t).1 := by
  have e : (crash s).1 = (crash t).1 := by simp [crash, h.cfg, h.store, h.high, h.flog, h.sess, h.ctxs]
  rw [e]; exact St.equiv_refl _

theorem saversEquiv_nil {m m' : AMap SaverPc} (h : saversEquiv m m') (hm : m = []) : m' = [] := by
  subst hm
  cases m' with
  | nil => rfl
  | cons b r => cases b; simp [saversEquiv] at h

/-- the same dirty list put into the same generation on both sides -/
theorem dirty_set_same {s t : St} (h : St.equiv s t) (n : Nat) (l : List Vb) (g : Nat) :
    sameSet (((s.dirtyMaps.set n l).get? g).getD []) (((t.dirtyMaps.set n l).get? g).getD []) := by
  rw [AMap.get?_set, AMap.get?_set]
  by_cases hg : g = n
  · simp [hg, sameSet_refl]
  · simp only [hg, if_false]; exact h.dirty g

theorem closedOf_equiv {s t : St} (h : St.equiv s t) : St.equiv (closedOf s) (closedOf t) :=
  ⟨h.cfg, h.store, h.high, h.flog, h.sess, rfl, h.everOpened, rfl, h.nextGen, by simp [closedOf, h.nextGen],
    h.anyDirty, by simp [closedOf, h.observers], rfl, h.ctxs, h.lockHeld,
    by show ∀ g, sameSet (((s.dirtyMaps.set s.nextGen []).get? g).getD []) (((t.dirtyMaps.set t.nextGen []).get? g).getD [])
       rw [h.nextGen]; exact dirty_set_fresh h t.nextGen, h.savers⟩

/-- a rebalance of equivalent states: equivalent states again, and the very same observations
    (the same refusal, or the same close requests / fail-stop / stream requests) -/
theorem rebalanceSession_equiv {s t : St} (h : St.equiv s t) (lo hi : Vb) :
    St.equiv (rebalanceSession s lo hi).1 (rebalanceSession t lo hi).1 ∧
    (rebalanceSession s lo hi).2 = (rebalanceSession t lo hi).2 := by
  cases h0 : s.isOpen with
  | false =>
    rw [rebalanceSession_of_not_open lo hi h0, rebalanceSession_of_not_open lo hi (h.isOpen ▸ h0)]
    exact ⟨h, rfl⟩
  | true =>
    have h0' : t.isOpen = true := h.isOpen ▸ h0
    by_cases hs : s.savers = []
    · have hs' : t.savers = [] := saversEquiv_nil h.savers hs
      by_cases hr : lo ≤ hi
      · have hb : load (rebalBase t lo hi) = load (rebalBase s lo hi) :=
          load_congr (by simp [h.cfg]) (by simp [h.store]) (by simp [h.high]) (by simp [h.flog])
        have hc := closedOf_equiv h
        cases hl : load (rebalBase s lo hi) with
        | none =>
          rw [rebalanceSession_of_load_none h0 hs hr hl, rebalanceSession_of_load_none h0' hs' hr (hb.trans hl)]
          refine ⟨?_, by rw [h.offsets]⟩
          exact ⟨by simp [h.cfg], hc.store, hc.high, hc.flog, hc.sess, rfl, rfl, rfl, hc.curGen, hc.nextGen,
            hc.anyDirty, hc.observers, rfl, hc.ctxs, hc.lockHeld, hc.dirty, hc.savers⟩
        | some r =>
          obtain ⟨offs, dirty, any⟩ := r
          rw [rebalanceSession_of_load_some h0 hs hr hl, rebalanceSession_of_load_some h0' hs' hr (hb.trans hl)]
          refine ⟨?_, by rw [h.offsets]⟩
          have hi' : initObs s = initObs t := by funext v o; simp [initObs, h.flog]
          exact ⟨by simp [h.cfg], h.store, h.high, h.flog, h.sess, rfl, h.everOpened, rfl, h.nextGen,
            by simp [h.nextGen], rfl, by simp [hi'], rfl, h.ctxs, h.lockHeld,
            by show ∀ g, sameSet (((s.dirtyMaps.set s.nextGen dirty).get? g).getD [])
                 (((t.dirtyMaps.set t.nextGen dirty).get? g).getD [])
               rw [h.nextGen]; exact dirty_set_same h t.nextGen dirty, h.savers⟩
      · rw [rebalanceSession_of_empty h0 hs (Nat.lt_of_not_le hr), rebalanceSession_of_empty h0' hs' (Nat.lt_of_not_le hr)]
        exact ⟨h, rfl⟩
    · have hs' : t.savers ≠ [] := by
        intro e
        have : saversEquiv t.savers s.savers := by
          have := h.savers
          rw [e] at this ⊢
          cases hh : s.savers with
          | nil => trivial
          | cons b r => rw [hh] at this; cases b; simp [saversEquiv] at this
        exact hs (saversEquiv_nil this e)
      rw [rebalanceSession_of_savers lo hi h0 hs, rebalanceSession_of_savers lo hi h0' hs']
      exact ⟨h, rfl⟩

/-- a transient stream end on equivalent states -/
theorem reopenStream_equiv {s t : St} (h : St.equiv s t) (vb : Vb) :
    St.equiv (reopenStream s vb).1 (reopenStream t vb).1 ∧ (reopenStream s vb).2 = (reopenStream t vb).2 := by
  have ho : t.offsets.get? vb = s.offsets.get? vb := by rw [h.offsets]
  have hb : t.observers.get? vb = s.observers.get? vb := by rw [h.observers]
  cases h0 : s.isOpen with
  | false =>
    have h0' : t.isOpen = false := h.isOpen ▸ h0
    simp only [reopenStream, h0, h0']
    exact ⟨h, rfl⟩
  | true =>
    have h0' : t.isOpen = true := h.isOpen ▸ h0
    cases h1 : s.offsets.get? vb <;> cases h2 : s.observers.get? vb <;>
      simp only [reopenStream, h0, h0', ho, hb, h1, h2]
    case some.some o ob =>
      refine ⟨?_, rfl⟩
      have e : s.observers.set vb (ob.setUuid ((s.flog.get? vb).getD 0)) =
          t.observers.set vb (ob.setUuid ((t.flog.get? vb).getD 0)) := by rw [h.flog, h.observers]
      exact ⟨h.cfg, h.store, h.high, h.flog, h.sess, rfl, h.everOpened, h.offsets, h.curGen, h.nextGen, h.anyDirty,
        e, h.obsNil, h.ctxs, h.lockHeld, h.dirty, h.savers⟩
    all_goals exact ⟨h, rfl⟩

/-- **congruence**: `St.equiv` is preserved by every op (a rebalance and a transient stream end
    included) -/
theorem step_equiv {s t : St} (h : St.equiv s t) (op : Op) : St.equiv (step s op).1 (step t op).1 := by
  cases op <;> simp only [step]
  case setStore vb d =>
    rw [← h.isOpen]
    split
    · exact h
    · exact ⟨h.cfg, by simp [h.store], h.high, h.flog, h.sess, rfl, h.everOpened, h.offsets, h.curGen, h.nextGen,
        h.anyDirty, h.observers, h.obsNil, h.ctxs, h.lockHeld, h.dirty, h.savers⟩
  case setHigh vb n =>
    exact ⟨h.cfg, h.store, by simp [h.high], h.flog, h.sess, h.isOpen, h.everOpened, h.offsets, h.curGen, h.nextGen,
      h.anyDirty, h.observers, h.obsNil, h.ctxs, h.lockHeld, h.dirty, h.savers⟩
  case setFlog vb u =>
    exact ⟨h.cfg, h.store, h.high, by simp [h.flog], h.sess, h.isOpen, h.everOpened, h.offsets, h.curGen, h.nextGen,
      h.anyDirty, h.observers, h.obsNil, h.ctxs, h.lockHeld, h.dirty, h.savers⟩
  case «open» => exact openSession_equiv h
  case close => exact closeSession_equiv h
  case crash => exact crash_equiv h
  case ev vb e => exact evStep_equiv h vb e
  case ack i =>
    rw [← h.ctxs, ← h.sess]
    split
    · exact h
    · split
      · exact h
      · exact ack_equiv h _
  case save res => exact saveAll_equiv h res
  case svBegin k => exact svBegin_equiv h k
  case svDump k => exact svDump_equiv h k
  case svStore k res => exact svStore_equiv h k res
  case svUnmark k => exact svUnmark_equiv h k
  case persist vb n =>
    rw [← h.obsNil, ← h.observers]
    split
    · exact h
    · split
      · exact h
      · exact ⟨h.cfg, h.store, h.high, h.flog, h.sess, h.isOpen, h.everOpened, h.offsets, h.curGen, h.nextGen,
          h.anyDirty, rfl, rfl, h.ctxs, h.lockHeld, h.dirty, h.savers⟩
  case getOffsets => exact h
  case metrics vb =>
    rw [← h.obsNil, ← h.observers]
    (repeat' split) <;> exact h
  case scrape => exact h
  case rebalance lo hi => exact (rebalanceSession_equiv h lo hi).1
  case reopen vb => exact (reopenStream_equiv h vb).1

theorem run_equiv {s t : St} (h : St.equiv s t) (ops : List Op) : St.equiv (run s ops) (run t ops) := by
  induction ops generalizing s t with
  | nil => exact h
  | cons op r ih => rw [run_cons, run_cons]; exact ih (step_equiv h op)

/-- hence: after two acknowledgements on different vBuckets, in either order, every later history
    leads to equivalent states — in particular to the same positions and the same durable store -/
theorem ack_commute_run (s : St) (p1 p2 : Pending) (hne : p1.vb ≠ p2.vb) (h1 : s.offsets.has p1.vb = true)
    (ops : List Op) :
    (run (ack (ack s p1).1 p2).1 ops).offsets = (run (ack (ack s p2).1 p1).1 ops).offsets ∧
    (run (ack (ack s p1).1 p2).1 ops).store = (run (ack (ack s p2).1 p1).1 ops).store := by
  have := run_equiv (ack_commute s p1 p2 hne h1).2.1 ops
  exact ⟨this.offsets, this.store⟩


/-! ### … and produce the same observations, up to the order inside reported dirty lists -/

/-- forget the dirty lists inside observations -/
def eraseDirty : Obsv → Obsv
  | .saveCall st _ => .saveCall st []
  | .pos o _ a => .pos o [] a
  | x => x

theorem listen_out_equiv {s t : St} (h : St.equiv s t) (vb : Vb) (le : LEvent) :
    (listen s vb le).2 = (listen t vb le).2 := by
  cases le with
  | marker => rfl
  | oso => rfl
  | seqAdv off => exact (setOffset_equiv h vb off true).2
  | sys k off => exact (setOffset_equiv h vb off true).2
  | doc d off coll tm =>
    by_cases hm : isMetaKey d.key = true
    · rw [listen_doc_meta _ _ _ _ _ hm, listen_doc_meta _ _ _ _ _ hm]; exact (setOffset_equiv h vb off false).2
    · have hm : isMetaKey d.key = false := by simpa using hm
      rw [listen_doc_user _ _ _ _ _ hm, listen_doc_user _ _ _ _ _ hm, h.ctxs]

theorem step_out_equiv {s t : St} (h : St.equiv s t) (op : Op) :
    (step s op).2.map eraseDirty = (step t op).2.map eraseDirty := by
  cases op <;> simp only [step]
  case setStore vb d => rw [← h.isOpen]; split <;> rfl
  case «open» =>
    cases h0 : s.isOpen with
    | true => rw [openSession_of_isOpen h0, openSession_of_isOpen (h.isOpen ▸ h0)]
    | false =>
      have h0' : t.isOpen = false := h.isOpen ▸ h0
      have hb := openBase_equiv h
      cases hl : load (openBase s) with
      | none => rw [openSession_of_load_none h0 hl, openSession_of_load_none h0' (hb ▸ hl)]
      | some r =>
        obtain ⟨offs, dirty, any⟩ := r
        rw [openSession_of_load_some h0 hl, openSession_of_load_some h0' (hb ▸ hl)]
  case close => simp only [closeSession, ← h.isOpen, ← h.offsets]; split <;> rfl
  case crash => rfl
  case ev vb e =>
    cases ho : s.observers.get? vb with
    | none =>
      have ho' : t.observers.get? vb = none := by rw [← h.observers]; exact ho
      rw [evStep_of_no_obs e ho, evStep_of_no_obs e ho']
    | some o =>
      have ho' : t.observers.get? vb = some o := by rw [← h.observers]; exact ho
      have hc : Obs.step t.cfg.obs o e = Obs.step s.cfg.obs o e := by rw [h.cfg]
      rw [evStep_of_obs e ho, evStep_of_obs e ho', hc, ← h.observers]
      have hs := equiv_setObservers h (s.observers.set vb (Obs.step s.cfg.obs o e).1)
      split
      · rw [listen_out_equiv hs]
      all_goals rfl
  case ack i =>
    rw [← h.ctxs, ← h.sess]
    split
    · rfl
    · split
      · rfl
      · rw [ack_out, ack_out, (setOffset_equiv h _ _ true).2]
  case save res =>
    rw [saveAll_eq, saveAll_eq, ← h.lockHeld, ← h.anyDirty, ← storeSucceeds_equiv h, ← dumpState_equiv h,
      ← mdWrite_equiv h (dumpState s) (equiv_curDirty h), ← h.cfg]
    (repeat' split) <;> rfl
  case svBegin k =>
    have hh := saversEquiv_has h.savers k
    cases hk : s.savers.has k with
    | true => rw [svBegin_of_exists hk, svBegin_of_exists (hh ▸ hk)]
    | false =>
      have hk' : t.savers.has k = false := hh ▸ hk
      cases ha : s.anyDirty with
      | false => rw [svBegin_of_clean hk ha, svBegin_of_clean hk' (h.anyDirty ▸ ha)]
      | true => rw [svBegin_of_dirty hk ha, svBegin_of_dirty hk' (h.anyDirty ▸ ha)]
  case svDump k =>
    have hg := saversEquiv_get? h.savers k
    cases hk : s.savers.get? k with
    | none =>
      cases hk' : t.savers.get? k with
      | none => simp only [svDump, hk, hk']
      | some b => simp [hk, hk'] at hg
    | some a =>
      cases hk' : t.savers.get? k with
      | none => simp [hk, hk'] at hg
      | some b =>
        simp only [hk, hk'] at hg
        cases a <;> cases b <;> simp only [pcEquiv] at hg
        case wantLock.wantLock g g' =>
          subst hg
          cases hl : s.lockHeld with
          | true =>
            have hl' : t.lockHeld = true := h.lockHeld ▸ hl
            simp only [svDump, hk, hk', hl, hl', if_true]
          | false =>
            have hl' : t.lockHeld = false := h.lockHeld ▸ hl
            rw [svDump_of_wantLock hk hl, svDump_of_wantLock hk' hl', dumpState_equiv h]
            rfl
        all_goals first | (exact absurd hg id) | (simp only [svDump, hk, hk'])
  case svStore k res =>
    have hg := saversEquiv_get? h.savers k
    cases hk : s.savers.get? k with
    | none =>
      cases hk' : t.savers.get? k with
      | none => simp only [svStore, hk, hk']
      | some b => simp [hk, hk'] at hg
    | some a =>
      cases hk' : t.savers.get? k with
      | none => simp [hk, hk'] at hg
      | some b =>
        simp only [hk, hk'] at hg
        cases a <;> cases b <;> simp only [pcEquiv] at hg
        case dumped.dumped st d st' d' =>
          obtain ⟨rfl, hd⟩ := hg
          rw [svStore_of_dumped res hk, svStore_of_dumped res hk', storeSucceeds_equiv h, mdWrite_equiv h st hd]
          split <;> rfl
        all_goals first | (exact absurd hg id) | (simp only [svStore, hk, hk'])
  case svUnmark k =>
    have hg := saversEquiv_get? h.savers k
    cases hk : s.savers.get? k with
    | none =>
      cases hk' : t.savers.get? k with
      | none => simp only [svUnmark, hk, hk']
      | some b => simp [hk, hk'] at hg
    | some a =>
      cases hk' : t.savers.get? k with
      | none => simp [hk, hk'] at hg
      | some b =>
        simp only [hk, hk'] at hg
        cases a <;> cases b <;> simp only [pcEquiv] at hg
        case stored.stored => rw [svUnmark_of_stored hk, svUnmark_of_stored hk']
        all_goals first | (exact absurd hg id) | (simp only [svUnmark, hk, hk'])
  case persist vb n =>
    rw [← h.obsNil, ← h.observers]
    (repeat' split) <;> rfl
  case getOffsets => simp [eraseDirty, h.offsets, h.anyDirty]
  case metrics vb =>
    rw [← h.obsNil, ← h.observers]
    (repeat' split) <;> rfl
  case scrape =>
    have : scrape s = scrape t := by
      simp [scrape, scrapeRows, h.obsNil, h.offsets, h.observers, h.high]
    rw [this]
  case rebalance lo hi => rw [(rebalanceSession_equiv h lo hi).2]
  case reopen vb => rw [(reopenStream_equiv h vb).2]


/-! ## 7. non-vacuity -/

/-- vBuckets 0 and 1 assigned, checkpoints at 5 and 7, opened, three events delivered (two on vBucket
    0 at seqnos 6 and 9 in snapshot [6,10], one on vBucket 1 at seqno 8) and not yet acknowledged -/
def exOpen : St :=
  (openSession { cfg := { lo := 0, hi := 1 }, store := [(0, ⟨11, 5, 5, 5⟩), (1, ⟨12, 7, 7, 7⟩)],
                 high := [(0, 20), (1, 20)], flog := [(0, 11), (1, 12)] }).1

def exSt : St :=
  { exOpen with ctxs := [⟨1, 0, ⟨11, 6, 6, 10, maxU64⟩⟩, ⟨1, 0, ⟨11, 9, 6, 10, maxU64⟩⟩, ⟨1, 1, ⟨12, 8, 8, 8, maxU64⟩⟩] }

example : exSt.isOpen = true ∧ exSt.sess = 1 ∧ posSeq exSt 0 = 5 ∧ posSeq exSt 1 = 7 := by decide
example : exSt.offsets.has 0 = true ∧ exSt.offsets.has 1 = true ∧ exSt.offsets.has 2 = false := by decide

/-- late, repeated, out-of-order acknowledgements: same position, the maximum -/
example : posSeq (run exSt [.ack 0, .ack 1, .ack 2]) 0 = 9 ∧ posSeq (run exSt [.ack 1, .ack 2, .ack 0, .ack 0]) 0 = 9 ∧
    posSeq (run exSt [.ack 1, .ack 0]) 1 = 7 ∧ posSeq (run exSt [.ack 2, .ack 1, .ack 0]) 1 = 8 := by decide

/-- the notifications of the in-order and of the reversed run for vBucket 0 -/
example : tracksOf 0 (runTrace exSt [.ack 0, .ack 1, .ack 2]).2 = [6, 9] ∧
    tracksOf 0 (runTrace exSt [.ack 1, .ack 2, .ack 0]).2 = [9] := by decide

/-- the hypotheses of `ack_commute` hold for the contexts 1 (vBucket 0) and 2 (vBucket 1) … -/
example : (⟨1, 0, ⟨11, 9, 6, 10, maxU64⟩⟩ : Pending).vb ≠ (⟨1, 1, ⟨12, 8, 8, 8, maxU64⟩⟩ : Pending).vb ∧
    exSt.offsets.has 0 = true := by decide

/-- … and the two orders differ only in the order of the dirty list -/
example : (run exSt [.ack 1, .ack 2]).offsets = (run exSt [.ack 2, .ack 1]).offsets ∧
    curDirty (run exSt [.ack 1, .ack 2]) = [0, 1] ∧ curDirty (run exSt [.ack 2, .ack 1]) = [1, 0] := by decide

/-- an acknowledgement for vBucket 5 (not assigned): flag only, the following save writes nothing for it -/
example :
    let s := (ack exSt ⟨1, 5, ⟨1, 3, 3, 3, 0⟩⟩).1
    s.offsets = exSt.offsets ∧ s.anyDirty = true ∧ (saveAll s .ok).1.store = exSt.store := by decide

/-- the hypotheses of `ack_after_rebalance_out_of_range'` / `ack_after_rebalance_in_range` hold for a
    rebalance of the example state to the range [1, 2] … -/
example : exSt.isOpen = true ∧ exSt.savers = [] ∧ (load (rebalBase exSt 1 2)).isSome = true ∧
    exSt.ctxs[0]? = some ⟨1, 0, ⟨11, 6, 6, 10, maxU64⟩⟩ ∧ exSt.ctxs[2]? = some ⟨1, 1, ⟨12, 8, 8, 8, maxU64⟩⟩ ∧
    exSt.sess = 1 := by decide

/-- … after it the stream is open on [1, 2], the contexts are still there; the late acknowledgement of
    context 0 (vBucket 0, no longer assigned) only raises the flag, the one of context 2 (vBucket 1,
    seqno 8 against the re-loaded 7) is tracked -/
example :
    let s' := (step exSt (.rebalance 1 2)).1
    s'.isOpen = true ∧ s'.cfg.lo = 1 ∧ s'.cfg.hi = 2 ∧ s'.sess = 1 ∧ s'.ctxs = exSt.ctxs ∧
    s'.offsets.has 0 = false ∧ posSeq s' 1 = 7 ∧ posSeq s' 2 = 0 ∧ s'.anyDirty = false ∧
    (step s' (.ack 0)).1.offsets = s'.offsets ∧ (step s' (.ack 0)).1.anyDirty = true ∧
    (step s' (.ack 0)).2.length = 0 ∧ curDirty (step s' (.ack 0)).1 = [] ∧
    tracksOf 1 [(step s' (.ack 2)).2] = [8] ∧ posSeq (step s' (.ack 2)).1 1 = 8 := by decide

/-- positions are re-loaded: vBucket 1 had reached 8 (not saved), the rebalance puts it back to the
    stored 7 — which is why a rebalance is not an in-session op — and the repeated acknowledgement is
    tracked again; one that is behind the re-loaded position (seqno 6 against 7) is not -/
example :
    let s1 := (step exSt (.ack 2)).1
    let s' := (step s1 (.rebalance 1 2)).1
    posSeq s1 1 = 8 ∧ posSeq s' 1 = 7 ∧ tracksOf 1 [(step s' (.ack 2)).2] = [8] ∧
    (let s'' := { s' with ctxs := s'.ctxs ++ [⟨1, 1, ⟨12, 6, 6, 6, maxU64⟩⟩] }
     (step s'' (.ack 3)).2.length = 0 ∧ posSeq (step s'' (.ack 3)).1 1 = 7) := by decide

/-- `Inv_range` holds in the example state -/
example : Inv_range exSt := by
  refine ⟨?_, ?_⟩
  · intro vb h
    have : vb = 0 ∨ vb = 1 := by
      have hk := (AMap.has_iff_mem_keys _ _).1 h
      have : AMap.keys exSt.offsets = [0, 1] := by decide
      rw [this] at hk; simpa using hk
    rcases this with rfl | rfl <;> decide
  · intro k st d h
    have : exSt.savers = [] := by decide
    rw [this] at h; cases h


end GoDcp.C04
