import GoDcp.Props.C20
/-!
# C20 for calls that issue SEVERAL requests (client.go GetVBucketSeqNos)

`GetVBucketSeqNos` issues one GET_ALL_VB_SEQNOS request per KV node (and per collection id), each
in an errgroup worker of its own.  Theorems about the two transition systems at the end of
`Model/AsyncOp.lean`, for ALL numbers of requests `n`, all configurations, all schedules and all
server behaviours (no bound):

 * `multi_independent`            with per-request asyncOps every request's part of a run IS a run of
                                  the single-operation LTS – so every theorem of Props/C20 applies to it
 * `multi_returns_by_deadline`    once every request's ctx has fired, finishing the callbacks that are
                                  between their two sends and four own steps per worker make `eg.Wait()`
                                  return (`…_clock`: "every deadline ≤ the clock" suffices)
 * `multi_result_sound`, `multi_ok_iff`
                                  the call returns success iff EVERY worker returned success, and then every
                                  request's single callback carried success; otherwise it returns the error of
                                  the first failing worker, which is that request's server error / ctx error
 * `multi_no_blocked_callback`    under gocbcore's at-most-once contract per request no callback of
                                  any request ever blocks in `Resolve()` or in `ch <- err` (before or after
                                  the call returned): `blockedCallbacks = 0`
 * `shared_op_hangs_refuted`      the hoisted shape (ONE asyncOp for all requests): n = 2, node 0
                                  answers promptly, node 1 is silent – the silent request's worker takes
                                  node 0's signal, `Wait` returns nil and it reads its own result channel
                                  FOR EVER (every continuation in which node 1 stays silent, deadline or not)
 * `shared_op_cancel_blocks_refuted`
                                  the hoisted shape, both nodes silent: after the first Cancel-driven callback
                                  has filled the one signal buffer nobody receives from it any more; the
                                  second callback can NEVER get through `Resolve()`.  (gocbcore runs that
                                  callback synchronously inside `op.Cancel()`, i.e. on the worker's own
                                  goroutine: the worker, and with it `eg.Wait()`, hangs.)
-/
namespace GoDcp.AsyncOp

/-! ## list surgery -/

theorem getElem?_modAt_eq {α : Type} (f : α → α) (l : List α) (i : Nat) :
    (modAt f i l)[i]? = (l[i]?).map f := by
  induction l generalizing i with
  | nil => simp [modAt]
  | cons x xs ih =>
    cases i with
    | zero => simp [modAt]
    | succ i => simp [modAt, ih]

theorem getElem?_modAt_ne {α : Type} (f : α → α) (l : List α) (i j : Nat) (h : i ≠ j) :
    (modAt f i l)[j]? = l[j]? := by
  induction l generalizing i j with
  | nil => simp [modAt]
  | cons x xs ih =>
    cases i with
    | zero =>
      cases j with
      | zero => exact absurd rfl h
      | succ j => simp [modAt]
    | succ i =>
      cases j with
      | zero => simp [modAt]
      | succ j =>
        simp only [modAt, List.getElem?_cons_succ]
        exact ih i j (by omega)

/-! ## projection of a multi-request run onto one request -/

theorem proj_cons (i : Nat) (a : MAction) (r : List MAction) :
    proj i (a :: r) = proj i [a] ++ proj i r := by
  cases a with
  | tick => simp [proj]
  | req j x => by_cases h : j = i <;> simp [proj, h]

theorem proj_append (i : Nat) (xs ys : List MAction) : proj i (xs ++ ys) = proj i xs ++ proj i ys := by
  induction xs with
  | nil => simp [proj]
  | cons a xs ih => rw [List.cons_append, proj_cons, ih, proj_cons i a xs, List.append_assoc]

theorem mstep_req_none (s : MState) (j : Nat) (x : Action) (h : s.ops[j]? = none) :
    mstep s (.req j x) = s := by
  simp [mstep, h]

theorem mstep_req_some (s : MState) (j : Nat) (x : Action) (o : State) (h : s.ops[j]? = some o) :
    mstep s (.req j x) = { ops := modAt (fun _ => stepD o x) j s.ops,
                           firstErr := errOnce s.firstErr o.final (stepD o x).final } := by
  simp [mstep, h]

theorem mstep_ops (s : MState) (a : MAction) (i : Nat) :
    (mstep s a).ops[i]? = (s.ops[i]?).map (fun o => run o (proj i [a])) := by
  cases a with
  | tick => simp [mstep, proj, run]
  | req j x =>
    cases hj : s.ops[j]? with
    | none =>
      rw [mstep_req_none s j x hj]
      by_cases h : j = i
      · subst h; simp [hj]
      · simp [proj, h, run]
    | some o =>
      rw [mstep_req_some s j x o hj]
      by_cases h : j = i
      · subst h; simp [getElem?_modAt_eq, hj, proj, run]
      · simp [getElem?_modAt_ne _ _ _ _ h, proj, h, run]

theorem mrun_cons (s : MState) (a : MAction) (r : List MAction) : mrun s (a :: r) = mrun (mstep s a) r := rfl

theorem mrun_append (s : MState) (xs ys : List MAction) : mrun s (xs ++ ys) = mrun (mrun s xs) ys := by
  simp [mrun, List.foldl_append]

theorem mrun_ops (s : MState) (acts : List MAction) (i : Nat) :
    (mrun s acts).ops[i]? = (s.ops[i]?).map (fun o => run o (proj i acts)) := by
  induction acts generalizing s with
  | nil => simp [mrun, proj, run]
  | cons a r ih =>
    rw [mrun_cons, ih, mstep_ops, proj_cons i a r]
    cases s.ops[i]? <;> simp [run_append]

theorem minit_ops (cfgs : List Cfg) (i : Nat) : (minit cfgs).ops[i]? = (cfgs[i]?).map init := by
  simp [minit]

/-- **multi_independent**: with one asyncOp (ctx, signal, result channel) per request, what happens
    to request `i` in ANY schedule of the whole call is exactly a run of the single-operation LTS on
    the steps that concern `i`; the other requests cannot be told from not being there. -/
theorem multi_independent (cfgs : List Cfg) (acts : List MAction) (i : Nat) :
    (mrun (minit cfgs) acts).ops[i]? = (cfgs[i]?).map (fun c => run (init c) (proj i acts)) := by
  rw [mrun_ops, minit_ops]
  cases cfgs[i]? <;> simp

/-! ## errgroup: the first error wins, finals are frozen -/

theorem final_stable {s s' : State} {a : Action} {f : Final} (h : step s a = some s')
    (hf : s.final = some f) : s'.final = some f := by
  ao_step_cases h
  all_goals (first | exact hf | (split <;> exact hf) | simp_all)

theorem final_stable_stepD (s : State) (a : Action) {f : Final} (hf : s.final = some f) :
    (stepD s a).final = some f := by
  rcases stepD_cases s a with ⟨he, _⟩ | hs
  · rw [he]; exact hf
  · exact final_stable hs hf

theorem tick_final (o : State) : (stepD o .tick).final = o.final := by
  unfold stepD step
  split <;> simp

theorem errOnce_some (f : Final) (b a : Option Final) : errOnce (some f) b a = some f := rfl

theorem errOnce_none_eq_some {b a : Option Final} {f : Final} (h : errOnce none b a = some f) :
    b = none ∧ a = some f ∧ f.isSuccess = false := by
  unfold errOnce at h
  cases b <;> cases a <;> simp at h
  rename_i g
  by_cases hs : g.isSuccess = true
  · simp [hs] at h
  · simp [hs] at h
    subst h
    exact ⟨rfl, rfl, by simpa using hs⟩

theorem errOnce_none_eq_none {b a : Option Final} (h : errOnce none b a = none) :
    b.isSome = true ∨ a = none ∨ ∃ f, a = some f ∧ f.isSuccess = true := by
  unfold errOnce at h
  cases b <;> cases a <;> simp at h ⊢
  exact h

/-- `g.err` is the return value of a worker that failed; while it is unset no worker has failed -/
def MInv (s : MState) : Prop :=
  (∀ f, s.firstErr = some f → f.isSuccess = false ∧ ∃ (i : Nat) (o : State), s.ops[i]? = some o ∧ o.final = some f) ∧
  (s.firstErr = none → ∀ (i : Nat) (o : State) (f : Final), s.ops[i]? = some o → o.final = some f → f.isSuccess = true)

theorem minv_init (cfgs : List Cfg) : MInv (minit cfgs) := by
  refine ⟨by simp [minit], ?_⟩
  intro _ i o f ho hf
  rw [minit_ops] at ho
  obtain ⟨c, _, rfl⟩ := Option.map_eq_some_iff.mp ho
  simp [init] at hf

theorem minv_step (s : MState) (a : MAction) (h : MInv s) : MInv (mstep s a) := by
  obtain ⟨h1, h2⟩ := h
  cases a with
  | tick =>
    have hfe : (mstep s .tick).firstErr = s.firstErr := rfl
    have key : ∀ (i : Nat) (o' : State), (mstep s .tick).ops[i]? = some o' →
        ∃ o : State, s.ops[i]? = some o ∧ o'.final = o.final := by
      intro i o' ho'
      simp only [mstep, List.getElem?_map] at ho'
      obtain ⟨o, ho, rfl⟩ := Option.map_eq_some_iff.mp ho'
      exact ⟨o, ho, tick_final o⟩
    have key2 : ∀ (i : Nat) (o : State), s.ops[i]? = some o →
        ∃ o' : State, (mstep s .tick).ops[i]? = some o' ∧ o'.final = o.final := by
      intro i o ho
      refine ⟨stepD o .tick, ?_, tick_final o⟩
      simp [mstep, ho]
    constructor
    · intro f hf
      rw [hfe] at hf
      obtain ⟨hs, i, o, ho, hof⟩ := h1 f hf
      obtain ⟨o', ho', hfe'⟩ := key2 i o ho
      exact ⟨hs, i, o', ho', by rw [hfe']; exact hof⟩
    · intro hn i o' f ho' hf
      rw [hfe] at hn
      obtain ⟨o, ho, hfe'⟩ := key i o' ho'
      exact h2 hn i o f ho (by rw [← hfe']; exact hf)
  | req j x =>
    cases hj : s.ops[j]? with
    | none => rw [mstep_req_none s j x hj]; exact ⟨h1, h2⟩
    | some o =>
      rw [mstep_req_some s j x o hj]
      have hnew_j : (modAt (fun _ => stepD o x) j s.ops)[j]? = some (stepD o x) := by
        rw [getElem?_modAt_eq, hj]; rfl
      have hnew_ne : ∀ i, j ≠ i → (modAt (fun _ => stepD o x) j s.ops)[i]? = s.ops[i]? :=
        fun i hne => getElem?_modAt_ne _ _ _ _ hne
      constructor
      · intro f hf
        simp only at hf
        cases hfe : s.firstErr with
        | some f0 =>
          rw [hfe, errOnce_some] at hf
          have hff : f0 = f := Option.some.inj hf
          subst hff
          obtain ⟨hs, i0, o0, ho0, hof0⟩ := h1 f0 hfe
          refine ⟨hs, ?_⟩
          by_cases hij : j = i0
          · subst hij
            rw [hj] at ho0
            cases ho0
            exact ⟨j, stepD o x, hnew_j, final_stable_stepD o x hof0⟩
          · exact ⟨i0, o0, by simp only; rw [hnew_ne i0 hij]; exact ho0, hof0⟩
        | none =>
          rw [hfe] at hf
          obtain ⟨_, ha, hs⟩ := errOnce_none_eq_some hf
          exact ⟨hs, j, stepD o x, hnew_j, ha⟩
      · intro hn i y f hy hyf
        simp only at hn hy
        cases hfe : s.firstErr with
        | some f0 => rw [hfe, errOnce_some] at hn; cases hn
        | none =>
          rw [hfe] at hn
          by_cases hij : j = i
          · subst hij
            rw [hnew_j] at hy
            cases hy
            rcases errOnce_none_eq_none hn with hb | ha | ⟨f', ha, hs⟩
            · obtain ⟨g, hg⟩ := Option.isSome_iff_exists.mp hb
              have := final_stable_stepD o x hg
              rw [this] at hyf
              have hgf : g = f := Option.some.inj hyf
              subst hgf
              exact h2 hfe j o g hj hg
            · rw [ha] at hyf; cases hyf
            · rw [ha] at hyf; cases hyf; exact hs
          · rw [hnew_ne i hij] at hy
            exact h2 hfe i y f hy hyf

theorem minv_run (s : MState) (acts : List MAction) (h : MInv s) : MInv (mrun s acts) := by
  induction acts generalizing s with
  | nil => exact h
  | cons a r ih => rw [mrun_cons]; exact ih _ (minv_step s a h)

/-! ## what the call returns -/

theorem callResult_some {s : MState} {r : CallRes} (h : callResult s = some r) :
    (∀ o ∈ s.ops, o.final.isSome = true) ∧
    r = (match s.firstErr with
         | some f => .err f
         | none => .ok (s.ops.map fun o => dataOf o.final)) := by
  unfold callResult at h
  split at h
  · rename_i hall
    cases h
    exact ⟨by simpa using hall, rfl⟩
  · cases h

theorem callResult_of_all {s : MState} (h : ∀ o ∈ s.ops, o.final.isSome = true) :
    (callResult s).isSome = true := by
  unfold callResult
  rw [if_pos (List.all_eq_true.mpr h)]
  rfl

/-- **multi_ok_iff**: in every reachable state in which `eg.Wait()` has returned, the call reports
    success exactly when every worker returned success; otherwise it reports an error. -/
theorem multi_ok_iff (cfgs : List Cfg) (acts : List MAction) (r : CallRes)
    (hr : callResult (mrun (minit cfgs) acts) = some r) :
    ((∃ ds, r = .ok ds) ↔
      ∀ (i : Nat) (o : State), (mrun (minit cfgs) acts).ops[i]? = some o → ∃ f : Final, o.final = some f ∧ f.isSuccess = true) ∧
    ((∃ f, r = .err f) ∨ (∃ ds, r = .ok ds)) := by
  obtain ⟨h1, h2⟩ := minv_run _ acts (minv_init cfgs)
  obtain ⟨hall, hr'⟩ := callResult_some hr
  generalize mrun (minit cfgs) acts = s at *
  cases hfe : s.firstErr with
  | none =>
    rw [hfe] at hr'
    refine ⟨⟨fun _ i o ho => ?_, fun _ => ⟨_, hr'⟩⟩, Or.inr ⟨_, hr'⟩⟩
    obtain ⟨f, hf⟩ := Option.isSome_iff_exists.mp (hall o (List.mem_of_getElem? ho))
    exact ⟨f, hf, h2 hfe i o f ho hf⟩
  | some f =>
    rw [hfe] at hr'
    refine ⟨⟨fun ⟨ds, hds⟩ => ?_, fun hok => ?_⟩, Or.inl ⟨_, hr'⟩⟩
    · rw [hds] at hr'; cases hr'
    · obtain ⟨hs, i, o, ho, hof⟩ := h1 f hfe
      obtain ⟨g, hg, hgs⟩ := hok i o ho
      rw [hof] at hg
      cases hg
      rw [hs] at hgs
      cases hgs

/-- what a return value of the call says about the requests -/
def CallSound (s : MState) : CallRes → Prop
  | .ok _ => ∀ (i : Nat) (o : State), s.ops[i]? = some o →
      ∃ d, o.final = some (Final.ok d) ∧ o.cbOutcomes = [Outcome.ok d]
  | .err f => f.isSuccess = false ∧ ∃ (i : Nat) (o : State), s.ops[i]? = some o ∧
      o.final = some f ∧ FinalSound o f

/-- **multi_result_sound**: per-request asyncOps, wrappers of the repaired GetVBucketSeqNos shape
    (buffered result channel read after `Wait`, callback error propagated), gocbcore's at-most-once
    contract per request.  If the call returns success then EVERY request's one callback carried
    success and its worker returned exactly that; if it returns an error, that is the return value of
    one of the workers, and it is that request's server error status or its own ctx error. -/
theorem multi_result_sound (cfgs : List Cfg) (acts : List MAction)
    (hsh : ∀ c ∈ cfgs, c.shape.resultChan = true ∧ c.shape.propagatesErr = true)
    (h1 : ∀ i, AtMostOnce (proj i acts)) (r : CallRes)
    (hr : callResult (mrun (minit cfgs) acts) = some r) :
    CallSound (mrun (minit cfgs) acts) r := by
  obtain ⟨hiff, _⟩ := multi_ok_iff cfgs acts r hr
  obtain ⟨m1, _⟩ := minv_run _ acts (minv_init cfgs)
  obtain ⟨_, hr'⟩ := callResult_some hr
  cases r with
  | ok ds =>
    intro i o ho
    obtain ⟨f, hf, hfs⟩ := hiff.mp ⟨ds, rfl⟩ i o ho
    rw [multi_independent] at ho
    obtain ⟨c, hc, rfl⟩ := Option.map_eq_some_iff.mp ho
    obtain ⟨hrc, hp⟩ := hsh c (List.mem_of_getElem? hc)
    obtain ⟨d, rfl, hcb⟩ := never_success_unconfirmed c (proj i acts) f (h1 i) hrc hp hf hfs
    exact ⟨d, hf, hcb⟩
  | err f =>
    have hfe : (mrun (minit cfgs) acts).firstErr = some f := by
      cases hx : (mrun (minit cfgs) acts).firstErr with
      | none => rw [hx] at hr'; cases hr'
      | some g => rw [hx] at hr'; cases hr'; rfl
    obtain ⟨hs, i, o, ho, hof⟩ := m1 f hfe
    refine ⟨hs, i, o, ho, hof, ?_⟩
    rw [multi_independent] at ho
    obtain ⟨c, _, rfl⟩ := Option.map_eq_some_iff.mp ho
    exact outcome_sound c (proj i acts) f (h1 i) hof

/-! ## no callback of any request ever blocks -/

/-- **multi_no_blocked_callback**: with per-request asyncOps and gocbcore's at-most-once contract
    per request, in EVERY reachable state of the call (before or after it returned, whatever the
    other requests do): a callback that is about to run finds its signal buffer free, and a callback
    between `Resolve()` and `ch <- err` finds its result buffer free. -/
theorem multi_no_blocked_callback (cfgs : List Cfg) (acts : List MAction)
    (h1 : ∀ i, AtMostOnce (proj i acts)) (i : Nat) (o : State)
    (ho : (mrun (minit cfgs) acts).ops[i]? = some o) :
    (o.spc = .pending → resolveWouldBlock o = false) ∧
    (∀ x, o.spc = .resolved x → pushWouldBlock o = false) := by
  rw [multi_independent] at ho
  obtain ⟨c, _, rfl⟩ := Option.map_eq_some_iff.mp ho
  exact server_never_blocks c (proj i acts) (h1 i)

/-- … in the form the driver counts it -/
theorem multi_blockedCallbacks_zero (cfgs : List Cfg) (acts : List MAction)
    (h1 : ∀ i, AtMostOnce (proj i acts)) : blockedCallbacks (mrun (minit cfgs) acts) = 0 := by
  unfold blockedCallbacks
  rw [List.countP_eq_zero]
  intro o ho
  obtain ⟨i, hi⟩ := List.mem_iff_getElem?.mp ho
  have := (multi_no_blocked_callback cfgs acts h1 i o hi).2
  split
  · rename_i x hx
    simp [this x hx]
  · simp

/-! ## returns by the deadline of its slowest request -/

/-- let the callback of request `i` finish its second send, then four steps of its worker -/
def finishOne (i : Nat) (b : Nat → Bool) : List MAction :=
  [.req i .srvPush, .req i (.waiterStep (b 0)), .req i (.waiterStep (b 1)),
   .req i (.waiterStep (b 2)), .req i (.waiterStep (b 3))]

/-- … for the requests `0 … n-1`; `b i k` resolves the `select` choices of worker `i` -/
def finish : Nat → (Nat → Nat → Bool) → List MAction
  | 0, _ => []
  | n + 1, b => finish n b ++ finishOne n (b n)

theorem proj_finishOne (i j : Nat) (b : Nat → Bool) :
    proj i (finishOne j b) =
      if j = i then [.srvPush, .waiterStep (b 0), .waiterStep (b 1), .waiterStep (b 2), .waiterStep (b 3)]
      else [] := by
  by_cases h : j = i <;> simp [finishOne, proj, h]

theorem proj_finish (i n : Nat) (b : Nat → Nat → Bool) :
    proj i (finish n b) =
      if i < n then [.srvPush, .waiterStep (b i 0), .waiterStep (b i 1), .waiterStep (b i 2), .waiterStep (b i 3)]
      else [] := by
  induction n with
  | zero => simp [finish, proj]
  | succ n ih =>
    rw [finish, proj_append, ih, proj_finishOne]
    by_cases h1 : i < n
    · have h2 : n ≠ i := by omega
      have h3 : i < n + 1 := by omega
      simp [h1, h2, h3]
    · by_cases h2 : n = i
      · subst h2; simp
      · have h3 : ¬ i < n + 1 := by omega
        simp [h1, h2, h3]

theorem finish_no_resolve (i n : Nat) (b : Nat → Nat → Bool) :
    (proj i (finish n b)).countP Action.isResolve = 0 := by
  rw [proj_finish]
  split <;> simp [Action.isResolve]

/-- **multi_returns_by_deadline** (model time), for every number of requests.  Take ANY reachable
    state of a call with per-request asyncOps (any schedule, any server behaviour within the
    contract) in which EVERY request's ctx has fired – i.e. the deadline of the slowest request
    has passed – and nothing crashed.  Let every callback that is between its two sends finish
    and give every worker four steps: `eg.Wait()` returns.  No server reply and no further tick
    is needed, and no request waits for another. -/
theorem multi_returns_by_deadline (cfgs : List Cfg) (acts : List MAction)
    (h1 : ∀ i, AtMostOnce (proj i acts))
    (hx : ∀ o ∈ (mrun (minit cfgs) acts).ops, o.crashed = false ∧ (ctxErr o).isSome = true)
    (b : Nat → Nat → Bool) :
    (callResult (mrun (mrun (minit cfgs) acts) (finish cfgs.length b))).isSome = true := by
  apply callResult_of_all
  intro o' ho'
  obtain ⟨i, hi⟩ := List.mem_iff_getElem?.mp ho'
  rw [mrun_ops] at hi
  obtain ⟨o, ho, rfl⟩ := Option.map_eq_some_iff.mp hi
  obtain ⟨hc, hxe⟩ := hx o (List.mem_of_getElem? ho)
  rw [multi_independent] at ho
  obtain ⟨c, hci, rfl⟩ := Option.map_eq_some_iff.mp ho
  have hlt : i < cfgs.length := (List.getElem?_eq_some_iff.mp hci).1
  rw [proj_finish, if_pos hlt]
  exact returns_by_deadline c (proj i acts) (h1 i) hc hxe _ _ _ _

/-- the clock form: every request has a ctx deadline, the callbacks do not panic, and the clock of
    every request has reached its deadline -/
theorem multi_returns_by_deadline_clock (cfgs : List Cfg) (acts : List MAction)
    (h1 : ∀ i, AtMostOnce (proj i acts))
    (hd : ∀ c ∈ cfgs, c.shape.cbDerefsResult = false)
    (hn : ∀ o ∈ (mrun (minit cfgs) acts).ops, ∃ d, o.deadline = some d ∧ d ≤ o.now)
    (b : Nat → Nat → Bool) :
    (callResult (mrun (mrun (minit cfgs) acts) (finish cfgs.length b))).isSome = true := by
  apply multi_returns_by_deadline cfgs acts h1 _ b
  intro o ho
  obtain ⟨d, hdl, hle⟩ := hn o ho
  refine ⟨?_, deadline_fires o d hdl hle⟩
  obtain ⟨i, hi⟩ := List.mem_iff_getElem?.mp ho
  rw [multi_independent] at hi
  obtain ⟨c, hc, rfl⟩ := Option.map_eq_some_iff.mp hi
  exact not_crashed_run c (proj i acts) (hd c (List.mem_of_getElem? hc))

/-- **multi_call_by_deadline**: both halves in one statement for the GetVBucketSeqNos shape – after
    the slowest deadline the call HAS returned, with success iff every request was answered with
    success (and its worker saw that), and otherwise with one request's own error. -/
theorem multi_call_by_deadline (cfgs : List Cfg) (acts : List MAction)
    (hsh : ∀ c ∈ cfgs, c.shape.resultChan = true ∧ c.shape.propagatesErr = true)
    (h1 : ∀ i, AtMostOnce (proj i acts))
    (hx : ∀ o ∈ (mrun (minit cfgs) acts).ops, o.crashed = false ∧ (ctxErr o).isSome = true)
    (b : Nat → Nat → Bool) :
    ∃ r, callResult (mrun (minit cfgs) (acts ++ finish cfgs.length b)) = some r ∧
      CallSound (mrun (minit cfgs) (acts ++ finish cfgs.length b)) r := by
  have hret := multi_returns_by_deadline cfgs acts h1 hx b
  rw [← mrun_append] at hret
  obtain ⟨r, hr⟩ := Option.isSome_iff_exists.mp hret
  refine ⟨r, hr, multi_result_sound cfgs _ hsh (fun i => ?_) r hr⟩
  unfold AtMostOnce
  rw [proj_append, List.countP_append, finish_no_resolve]
  exact h1 i

/-! ## the hoisted shape: ONE asyncOp for all requests of the call -/

/-- the (repaired) GetVBucketSeqNos wrapper shape -/
def seqnosRepaired : Shape := { resultChan := true, propagatesErr := true }

theorem seqnosRepaired_is_table_row :
    (lookupSite "client.go:GetVBucketSeqNos").map (fun w => (w.shape, w.scope)) =
      some (seqnosRepaired, .perRequest) := by decide

/-- the table has no site of the shared kind -/
theorem no_shared_asyncop : (wrappers.filter (fun w => w.scope == .shared)).map (·.site) = [] := by decide

theorem srun_cons (s : SState) (a : MAction) (r : List MAction) : srun s (a :: r) = srun (sstepD s a) r := rfl

/-- two requests; node 0 answers at once, node 1 says nothing.  Both workers are in `Wait`'s `select`;
    callback 0 runs (`Resolve()`, `ch0 <- nil`); the worker of request ONE receives that signal,
    its `Wait` returns `ctx.Err() == nil`, and it goes on to `<-ch1`. -/
def stealSchedule : List MAction :=
  [.req 0 (.waiterStep false), .req 1 (.waiterStep false),
   .req 0 (.srvResolve (.ok 1)), .req 0 .srvPush,
   .req 1 (.waiterStep false), .req 1 (.waiterStep false)]

/-- worker 1 sits at `<-ch1`: `Wait` returned nil, nothing is in its result channel, its request is unanswered -/
def StuckAtRead (s : SState) : Prop :=
  s.shape = seqnosRepaired ∧ ∃ r0 r1 : SReq, s.reqs = [r0, r1] ∧ r1.wpc = .returned .nil_ ∧
    r1.final = none ∧ r1.resultBuf = none ∧ r1.spc = .pending ∧ r1.cbOutcomes = []

/-- a step of the shared model that concerns request `i`: either nothing happens (not enabled) or the
    single-operation LTS made a step on the view of request `i` -/
theorem sstepD_req (s : SState) (i : Nat) (x : Action) :
    sstepD s (.req i x) = s ∨ ∃ r t, s.reqs[i]? = some r ∧ step (sview s r) x = some t ∧
      sstepD s (.req i x) = { s with now := t.now, cancelled := t.cancelled, signalFull := t.signalFull,
                                     reqs := modAt (fun _ => sreqOf t) i s.reqs } := by
  cases hr : s.reqs[i]? with
  | none => left; simp [sstepD, sstep, hr]
  | some r =>
    cases ht : step (sview s r) x with
    | none => left; simp [sstepD, sstep, hr, ht]
    | some t => right; exact ⟨r, t, rfl, ht, by simp [sstepD, sstep, hr, ht]⟩

/-- the goroutine that reads its result channel after `Wait` returned nil cannot be moved by anything
    but its own request's callback -/
theorem stuck_private {v t : State} {x : Action} (hx : ∀ o, x ≠ .srvResolve o)
    (hsh : v.shape.resultChan = true) (h1 : v.wpc = .returned .nil_) (h2 : v.final = none)
    (h3 : v.resultBuf = none) (h4 : v.spc = .pending) (hs : step v x = some t) :
    t.wpc = .returned .nil_ ∧ t.final = none ∧ t.resultBuf = none ∧ t.spc = .pending ∧
    t.cbOutcomes = v.cbOutcomes := by
  ao_step_cases hs
  all_goals (first | (exact ⟨h1, h2, h3, h4, rfl⟩) | (split <;> exact ⟨h1, h2, h3, h4, rfl⟩) | simp_all)

theorem stuckAtRead_step (s : SState) (a : MAction) (h : StuckAtRead s)
    (ha : ∀ o, a ≠ .req 1 (.srvResolve o)) : StuckAtRead (sstepD s a) := by
  obtain ⟨hsh, r0, r1, hr, h1, h2, h3, h4, h5⟩ := h
  cases a with
  | tick => exact ⟨hsh, r0, r1, hr, h1, h2, h3, h4, h5⟩
  | req i x =>
    rcases sstepD_req s i x with he | ⟨r, t, hri, hst, he⟩
    · rw [he]; exact ⟨hsh, r0, r1, hr, h1, h2, h3, h4, h5⟩
    · rw [he]
      rw [hr] at hri
      rcases i with _ | _ | i
      · -- a step of request 0: request 1's private part is untouched
        exact ⟨hsh, sreqOf t, r1, by simp [hr, modAt], h1, h2, h3, h4, h5⟩
      · -- a step of request 1: only the clock / the ctx owner can move
        simp only [List.getElem?_cons_succ, List.getElem?_cons_zero, Option.some.injEq] at hri
        subst hri
        have hx : ∀ o, x ≠ .srvResolve o := fun o hxo => ha o (by rw [hxo])
        obtain ⟨t1, t2, t3, t4, t5⟩ := stuck_private (v := sview s r1) hx (by simp [sview, hsh, seqnosRepaired]) h1 h2 h3 h4 hst
        exact ⟨hsh, r0, sreqOf t, by simp [hr, modAt], t1, t2, t3, t4, t5.trans h5⟩
      · simp at hri

theorem stuckAtRead_run (s : SState) (post : List MAction) (h : StuckAtRead s)
    (hp : ∀ a ∈ post, ∀ o, a ≠ .req 1 (.srvResolve o)) : StuckAtRead (srun s post) := by
  induction post generalizing s with
  | nil => exact h
  | cons a r ih =>
    rw [srun_cons]
    exact ih _ (stuckAtRead_step s a h (hp a (List.mem_cons_self))) (fun x hx => hp x (List.mem_cons_of_mem _ hx))

/-- **shared_op_hangs_refuted** – "returns by its deadline" is FALSE when the requests of one call
    share one asyncOp.  Two requests, ctx deadline 3; node 0 answers promptly and exactly once,
    node 1 is silent.  After `stealSchedule` (six steps, well before the deadline), for EVERY
    continuation in which node 1 stays silent – any number of ticks past the deadline, any steps of
    worker 0, a cancelled ctx, even further callbacks of request 0 –: `eg.Wait()` has not
    returned and worker 1's next step is not enabled.  It reads its own result channel `ch1`,
    which only request 1's callback writes, and `Wait` – the only place that looks at the ctx – is behind it. -/
theorem shared_op_hangs_refuted :
    ∀ post : List MAction, (∀ a ∈ post, ∀ o, a ≠ .req 1 (.srvResolve o)) →
      let s := srun (srun (sinit seqnosRepaired (some 3) 2) stealSchedule) post
      scallReturned s = false ∧ (∀ b, sstep s (.req 1 (.waiterStep b)) = none) ∧
      (∃ r1, s.reqs[1]? = some r1 ∧ r1.wpc = .returned .nil_ ∧ r1.cbOutcomes = [] ∧ r1.final = none) := by
  intro post hp
  have h0 : StuckAtRead (srun (sinit seqnosRepaired (some 3) 2) stealSchedule) :=
    ⟨rfl, _, _, rfl, rfl, rfl, rfl, rfl, rfl⟩
  obtain ⟨hsh, r0, r1, hr, h1, h2, h3, h4, h5⟩ := stuckAtRead_run _ post h0 hp
  generalize srun (srun (sinit seqnosRepaired (some 3) 2) stealSchedule) post = s at *
  refine ⟨?_, fun b => ?_, r1, by simp [hr], h1, h5, h2⟩
  · simp [scallReturned, hr, h2]
  · simp [sstep, hr, step, sview, h1, h2, h3, hsh, seqnosRepaired]

/-- the state the theorem starts from really is reached by a run in which node 0 answered once,
    with success, and nothing else happened (no tick: far from the deadline) -/
example :
    let s := srun (sinit seqnosRepaired (some 3) 2) stealSchedule
    s.now = 0 ∧ s.signalFull = false ∧
    s.reqs.map (fun r => (r.wpc, r.spc, r.resultBuf)) =
      [(.selecting, .completed (.ok 1), some (.ok 1)), (.returned .nil_, .pending, none)] := by decide

/-- both nodes silent.  At the deadline worker 0 takes `ctx.Done()` and calls `op.Cancel()`; gocbcore
    runs callback 0 with the cancellation error: `Resolve()` fills the ONE signal buffer, `ch0 <- err`.
    Worker 1 takes `ctx.Done()` as well and calls `op.Cancel()` … -/
def cancelSchedule : List MAction :=
  [.req 0 (.waiterStep false), .req 1 (.waiterStep false), .tick, .tick, .tick,
   .req 0 (.waiterStep true), .req 0 (.srvResolve (.err 4)), .req 0 .srvPush,
   .req 1 (.waiterStep true)]

/-- the worker is past the `select` of `Wait` (it will never receive from `signal` again) -/
def pastSelect : WPc → Bool
  | .cancelled | .signalled | .returned _ => true
  | _ => false

/-- the signal buffer is full and no goroutine is left that would ever receive from it -/
def SignalDead (s : SState) : Prop :=
  s.shape = seqnosRepaired ∧ s.signalFull = true ∧ ∃ r0 r1 : SReq, s.reqs = [r0, r1] ∧ pastSelect r0.wpc = true ∧
    pastSelect r1.wpc = true ∧ r1.spc = .pending

/-- with the signal buffer full, a goroutine past its `select` leaves the buffer full and stays past
    it; a pending callback stays pending (its `Resolve()` is not enabled) -/
theorem dead_private {v t : State} {x : Action} (hsf : v.signalFull = true) (hp : pastSelect v.wpc = true)
    (hs : step v x = some t) :
    t.signalFull = true ∧ pastSelect t.wpc = true ∧ (v.spc = .pending → t.spc = .pending) := by
  ao_step_cases hs
  all_goals (first | (exact ⟨hsf, hp, id⟩) | (split <;> exact ⟨hsf, hp, id⟩) | simp_all [pastSelect])

theorem signalDead_step (s : SState) (a : MAction) (h : SignalDead s) : SignalDead (sstepD s a) := by
  obtain ⟨hsh, hsf, r0, r1, hr, hp0, hp1, hs1⟩ := h
  cases a with
  | tick => exact ⟨hsh, hsf, r0, r1, hr, hp0, hp1, hs1⟩
  | req i x =>
    rcases sstepD_req s i x with he | ⟨r, t, hri, hst, he⟩
    · rw [he]; exact ⟨hsh, hsf, r0, r1, hr, hp0, hp1, hs1⟩
    · rw [he]
      rw [hr] at hri
      rcases i with _ | _ | i
      · simp only [List.getElem?_cons_zero, Option.some.injEq] at hri
        subst hri
        obtain ⟨t1, t2, _⟩ := dead_private (v := sview s r0) hsf hp0 hst
        exact ⟨hsh, t1, sreqOf t, r1, by simp [hr, modAt], t2, hp1, hs1⟩
      · simp only [List.getElem?_cons_succ, List.getElem?_cons_zero, Option.some.injEq] at hri
        subst hri
        obtain ⟨t1, t2, t3⟩ := dead_private (v := sview s r1) hsf hp1 hst
        exact ⟨hsh, t1, r0, sreqOf t, by simp [hr, modAt], hp0, t2, t3 hs1⟩
      · simp at hri

theorem signalDead_run (s : SState) (post : List MAction) (h : SignalDead s) : SignalDead (srun s post) := by
  induction post generalizing s with
  | nil => exact h
  | cons a r ih => rw [srun_cons]; exact ih _ (signalDead_step s a h)

/-- **shared_op_cancel_blocks_refuted** – "a completion neither blocks" is FALSE when the requests
    of one call share one asyncOp.  Two requests, both nodes silent, ctx deadline 3.  After
    `cancelSchedule`, for EVERY continuation whatsoever and every outcome `o`: the callback of
    request 1 (the one `op.Cancel()` of worker 1 triggers) cannot get through `Resolve()` – the
    signal buffer holds callback 0's token and every worker is past its `select`.  In the real
    code that callback runs synchronously inside `op.Cancel()` on worker 1's goroutine, so worker 1
    never returns and `eg.Wait()` never returns. -/
theorem shared_op_cancel_blocks_refuted :
    ∀ (post : List MAction) (o : Outcome),
      let s := srun (srun (sinit seqnosRepaired (some 3) 2) cancelSchedule) post
      sstep s (.req 1 (.srvResolve o)) = none ∧
      (∃ r1, s.reqs[1]? = some r1 ∧ r1.spc = .pending ∧ resolveWouldBlock (sview s r1) = true) := by
  intro post o
  have h0 : SignalDead (srun (sinit seqnosRepaired (some 3) 2) cancelSchedule) :=
    ⟨rfl, rfl, _, _, rfl, rfl, rfl, rfl⟩
  obtain ⟨hsh, hsf, r0, r1, hr, _, _, hs1⟩ := signalDead_run _ post h0
  generalize srun (srun (sinit seqnosRepaired (some 3) 2) cancelSchedule) post = s at *
  refine ⟨?_, r1, by simp [hr], hs1, by simp [resolveWouldBlock, sview, hsf]⟩
  simp only [sstep, hr, List.getElem?_cons_succ, List.getElem?_cons_zero, step, sview, hs1, hsf, hsh,
    seqnosRepaired, Bool.false_eq_true, if_false]
  cases o <;> simp

/-- the state the theorem starts from: deadline reached, each worker has called `op.Cancel()` exactly
    once, callback 0 is through, callback 1 has not run -/
example :
    let s := srun (sinit seqnosRepaired (some 3) 2) cancelSchedule
    s.now = 3 ∧ s.signalFull = true ∧
    s.reqs.map (fun r => (r.wpc, r.spc, r.cancelCalls)) =
      [(.cancelled, .completed (.err 4), 1), (.cancelled, .pending, 1)] := by decide

/-! ## the same two situations with per-request asyncOps (non-vacuity, and the contrast) -/

def seqCfg : Cfg := { shape := seqnosRepaired, deadline := some 3 }

/-- node 0 prompt, node 1 silent, per-request asyncOps: worker 1 CANNOT take request 0's signal (its
    `select` is not enabled before the deadline); at the deadline it cancels and the call returns
    the deadline error; both callbacks went through; nothing is blocked -/
example :
    let pre : List MAction :=
      [.req 0 (.waiterStep false), .req 1 (.waiterStep false), .req 0 (.srvResolve (.ok 1)), .req 0 .srvPush]
    let s1 := mrun (minit [seqCfg, seqCfg]) pre
    let rest : List MAction :=
      [.req 0 (.waiterStep false), .req 0 (.waiterStep false), .req 0 (.waiterStep false),
       .tick, .tick, .tick,
       .req 1 (.waiterStep true), .req 1 (.srvResolve (.err 4)), .req 1 .srvPush,
       .req 1 (.waiterStep false), .req 1 (.waiterStep false)]
    (s1.ops[1]?.map fun o => step o (.waiterStep false)) = some none ∧
    callResult s1 = none ∧
    callResult (mrun s1 rest) = some (.err (.ctxErr .deadlineExceeded)) ∧
    blockedCallbacks (mrun s1 rest) = 0 ∧
    (∀ i, i < 2 → AtMostOnce (proj i (pre ++ rest))) := by decide

/-- both silent, per-request asyncOps: both Cancel-driven callbacks go through -/
example :
    let acts : List MAction :=
      [.req 0 (.waiterStep false), .req 1 (.waiterStep false), .tick, .tick, .tick,
       .req 0 (.waiterStep true), .req 0 (.srvResolve (.err 4)), .req 0 .srvPush,
       .req 1 (.waiterStep true), .req 1 (.srvResolve (.err 4)), .req 1 .srvPush,
       .req 0 (.waiterStep false), .req 0 (.waiterStep false), .req 1 (.waiterStep false), .req 1 (.waiterStep false)]
    callResult (mrun (minit [seqCfg, seqCfg]) acts) = some (.err (.ctxErr .deadlineExceeded)) ∧
    blockedCallbacks (mrun (minit [seqCfg, seqCfg]) acts) = 0 := by decide

/-- all three nodes answer: success with every node's data -/
example :
    let acts : List MAction :=
      [.req 0 (.waiterStep false), .req 1 (.waiterStep false), .req 2 (.waiterStep false),
       .req 2 (.srvResolve (.ok 7)), .req 0 (.srvResolve (.ok 5)), .req 2 .srvPush, .req 1 (.srvResolve (.ok 6)),
       .req 0 .srvPush, .req 1 .srvPush] ++ finish 3 (fun _ _ => false)
    callResult (mrun (minit [seqCfg, seqCfg, seqCfg]) acts) = some (.ok [5, 6, 7]) := by decide

/-- one node answers with an error status: that error, although the other two succeeded -/
example :
    let acts : List MAction :=
      [.req 0 (.waiterStep false), .req 1 (.waiterStep false), .req 2 (.waiterStep false),
       .req 2 (.srvResolve (.ok 7)), .req 0 (.srvResolve (.ok 5)), .req 2 .srvPush, .req 1 (.srvResolve (.err 1)),
       .req 0 .srvPush, .req 1 .srvPush] ++ finish 3 (fun _ _ => false)
    callResult (mrun (minit [seqCfg, seqCfg, seqCfg]) acts) = some (.err (.srvErr 1)) := by decide

/-- hypotheses of `multi_returns_by_deadline` / `multi_call_by_deadline` are satisfiable with a
    silent node among prompt ones -/
example :
    let cfgs := [seqCfg, seqCfg]
    let acts : List MAction :=
      [.req 0 (.waiterStep false), .req 1 (.waiterStep false), .req 0 (.srvResolve (.ok 1)), .tick, .tick, .tick]
    (∀ i, i < 2 → AtMostOnce (proj i acts)) ∧
    (mrun (minit cfgs) acts).ops.all (fun o => !o.crashed && (ctxErr o).isSome) = true ∧
    callResult (mrun (minit cfgs) acts) = none ∧
    callResult (mrun (mrun (minit cfgs) acts) (finish 2 (fun _ _ => true))) =
      some (.err (.ctxErr .deadlineExceeded)) := by decide

/-! ## the driver's predictions pass the monitor -/

open GoDcp.Spec.C20 in
/-- all behaviour lists of length `n` -/
def behLists : Nat → List (List NodeBeh)
  | 0 => [[]]
  | n + 1 => (behLists n).flatMap fun l => [.prompt :: l, .err :: l, .silent :: l, .late :: l]

open GoDcp.Spec.C20 in
/-- **multiModelObs_holds** (every behaviour list of 1, 2 and 3 nodes – 84 lists – checked by
    evaluation in the kernel): what the driver prints as the model's prediction passes the monitor
    `checkMulti`, comes `before` exactly when no node is silent or late and otherwise `by-deadline`,
    is `ok` exactly when every node is prompt, and never has a blocked callback. -/
theorem multiModelObs_holds :
    ∀ behs ∈ behLists 1 ++ behLists 2 ++ behLists 3,
      holdsMulti (multiModelObs behs) = true ∧ (multiModelObs behs).blocked = 0 ∧
      ((multiModelObs behs).cls = .ok ↔ behs.all (· == .prompt) = true) ∧
      ((multiModelObs behs).time = .before ↔ behs.all (fun b => b == .prompt || b == .err) = true) ∧
      (multiModelObs behs).time ≠ .late := by decide +kernel

open GoDcp.Spec.C20 in
/-- the schedules the driver runs respect gocbcore's contract: one callback invocation per request -/
theorem multiSched_atMostOnce :
    ∀ behs ∈ behLists 1 ++ behLists 2 ++ behLists 3, ∀ i, i < 3 →
      AtMostOnce (proj i (multiPre behs ++ multiPost behs)) := by decide +kernel

end GoDcp.AsyncOp
