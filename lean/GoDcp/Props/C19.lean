import GoDcp.Model.Health
import GoDcp.Spec.C19
/-!
# C19 — health checking is fail-stop after five consecutive failures, and stoppable

Part 1: one round and runs of rounds, for **arbitrary** result streams.
Part 2: the life-cycle LTS, for **all** schedules (`∀ acts : List Action`).
-/
namespace GoDcp.Health
open GoDcp.Spec.C19

/-! ## Part 1 — rounds -/

/-- every result stream is `i` failures followed by a success, or all failures -/
theorem decompose (rs : List Bool) :
    (∃ i rest, rs = List.replicate i false ++ true :: rest) ∨ rs = List.replicate rs.length false := by
  induction rs with
  | nil => right; rfl
  | cons b t ih =>
    cases b with
    | true => left; exact ⟨0, t, rfl⟩
    | false =>
      rcases ih with ⟨i, rest, h⟩ | h
      · left; exact ⟨i + 1, rest, by rw [h, List.replicate_succ, List.cons_append]⟩
      · right; rw [List.length_cons, List.replicate_succ, ← h]

/-- a success at position `i` (0-based, attempt `a + i ≤ 5`) ends the round with
    `a + i` pings and no panic, whatever follows -/
theorem roundFrom_success (i : Nat) : ∀ (a : Nat) (rest : List Bool), a + i ≤ 5 →
    roundFrom a (List.replicate i false ++ true :: rest) = ⟨a + i, .ok⟩ := by
  induction i with
  | zero =>
    intro a rest h
    have : ¬ maxRetries < a := by unfold maxRetries; omega
    simp [roundFrom, this]
  | succ i ih =>
    intro a rest h
    have h1 : ¬ maxRetries < a := by unfold maxRetries; omega
    have h2 : a < maxRetries := by unfold maxRetries; omega
    rw [List.replicate_succ, List.cons_append, roundFrom, if_neg h1, if_pos h2, ih (a + 1) rest (by omega),
      show a + 1 + i = a + (i + 1) by omega]

/-- failures on all remaining attempts: five pings, panic -/
theorem roundFrom_panic (n : Nat) : ∀ (a : Nat) (rest : List Bool), a ≤ 5 → a + n = 6 →
    roundFrom a (List.replicate n false ++ rest) = ⟨5, .panic⟩ := by
  induction n with
  | zero => intro a rest h1 h; omega
  | succ n ih =>
    intro a rest h1 h
    have h1' : ¬ maxRetries < a := by unfold maxRetries; omega
    rw [List.replicate_succ, List.cons_append, roundFrom, if_neg h1']
    by_cases h2 : a < maxRetries
    · rw [if_pos h2]; exact ih (a + 1) rest (by unfold maxRetries at h2; omega) (by omega)
    · rw [if_neg h2]
      have : a = 5 := by unfold maxRetries at h2; omega
      rw [this]

/-- the stream ends while a ping is owed -/
theorem roundFrom_starved (i : Nat) : ∀ (a : Nat), 1 ≤ a → a + i ≤ 5 →
    roundFrom a (List.replicate i false) = ⟨a - 1 + i, .starved⟩ := by
  induction i with
  | zero =>
    intro a h1 h
    have : ¬ maxRetries < a := by unfold maxRetries; omega
    simp [roundFrom, this]
  | succ i ih =>
    intro a h1 h
    have h1' : ¬ maxRetries < a := by unfold maxRetries; omega
    have h2 : a < maxRetries := by unfold maxRetries; omega
    rw [List.replicate_succ, roundFrom, if_neg h1', if_pos h2, ih (a + 1) (by omega) (by omega),
      show a + 1 - 1 + i = a - 1 + (i + 1) by omega]

/-- **success_ends_round**: if the first success of the stream is at index `i < 5`,
    the round issues exactly `i + 1 ≤ 5` pings and returns normally – regardless of
    what the stream holds afterwards. -/
theorem success_ends_round (i : Nat) (rest : List Bool) (hi : i < 5) :
    round (List.replicate i false ++ true :: rest) = ⟨i + 1, .ok⟩ := by
  unfold round
  rw [roundFrom_success i 1 rest (by omega), Nat.add_comm]

/-- five leading failures: exactly five pings, then panic – regardless of what follows -/
theorem five_failures_panic (rest : List Bool) :
    round (List.replicate 5 false ++ rest) = ⟨5, .panic⟩ :=
  roundFrom_panic 5 1 rest (by omega) rfl

/-- fewer than five results, all failures: the round is still running -/
theorem short_failures_starved (i : Nat) (hi : i < 5) :
    round (List.replicate i false) = ⟨i, .starved⟩ := by
  unfold round
  rw [roundFrom_starved i 1 (by omega) (by omega), show 1 - 1 + i = i by omega]

/-- the first five results when the first success is at index `i < 5` -/
private theorem take5_form (i : Nat) (rest : List Bool) (hi : i < 5) :
    (List.replicate i false ++ true :: rest).take 5
      = List.replicate i false ++ true :: rest.take (4 - i) := by
  rw [List.take_append, List.take_replicate, List.length_replicate]
  have : min 5 i = i := by omega
  rw [this]
  obtain ⟨k, hk⟩ : ∃ k, 5 - i = k + 1 := ⟨4 - i, by omega⟩
  rw [hk, List.take_succ_cons]
  congr; omega

private theorem take5_success (i : Nat) (rest : List Bool) (hi : i < 5) :
    (List.replicate i false ++ true :: rest).take 5 ≠ List.replicate 5 false := by
  intro h
  have hm : true ∈ (List.replicate i false ++ true :: rest).take 5 := by
    rw [take5_form i rest hi]; simp
  rw [h] at hm
  simp at hm

/-- **panic_iff_five_failures** (arbitrary result streams): the round panics
    exactly when its first five results are all failures. -/
theorem panic_iff_five_failures (rs : List Bool) :
    (round rs).res = .panic ↔ rs.take 5 = List.replicate 5 false := by
  rcases decompose rs with ⟨i, rest, h⟩ | h
  · by_cases hi : i < 5
    · rw [h, success_ends_round i rest hi]
      constructor
      · intro hh; cases hh
      · intro hh; exact absurd hh (take5_success i rest hi)
    · obtain ⟨j, rfl⟩ : ∃ j, i = 5 + j := ⟨i - 5, by omega⟩
      have e : rs = List.replicate 5 false ++ (List.replicate j false ++ true :: rest) := by
        rw [h, ← List.append_assoc, List.replicate_append_replicate]
      rw [e, five_failures_panic]
      simp
  · by_cases hl : rs.length < 5
    · rw [h, short_failures_starved _ hl]
      constructor
      · intro hh; cases hh
      · intro hh
        have := congrArg List.length hh
        simp at this; omega
    · obtain ⟨j, hj⟩ : ∃ j, rs.length = 5 + j := ⟨rs.length - 5, by omega⟩
      have e : rs = List.replicate 5 false ++ List.replicate j false := by
        rw [List.replicate_append_replicate, ← hj]; exact h
      rw [e, five_failures_panic]
      simp

/-- a panic is always preceded by exactly five pings -/
theorem panic_pings (rs : List Bool) (h : (round rs).res = .panic) : (round rs).pings = 5 := by
  have h5 := (panic_iff_five_failures rs).1 h
  have e : rs = List.replicate 5 false ++ rs.drop 5 := by
    conv => lhs; rw [← List.take_append_drop 5 rs]
    rw [h5]
  rw [e, five_failures_panic]

/-- never more than five pings per round, never more than results supplied -/
theorem pings_le (rs : List Bool) : (round rs).pings ≤ 5 ∧ (round rs).pings ≤ rs.length := by
  rcases decompose rs with ⟨i, rest, h⟩ | h
  · by_cases hi : i < 5
    · rw [h, success_ends_round i rest hi]; simp; omega
    · obtain ⟨j, rfl⟩ : ∃ j, i = 5 + j := ⟨i - 5, by omega⟩
      have e : rs = List.replicate 5 false ++ (List.replicate j false ++ true :: rest) := by
        rw [h, ← List.append_assoc, List.replicate_append_replicate]
      rw [e, five_failures_panic]; simp
  · by_cases hl : rs.length < 5
    · rw [h, short_failures_starved _ hl]; simp; omega
    · obtain ⟨j, hj⟩ : ∃ j, rs.length = 5 + j := ⟨rs.length - 5, by omega⟩
      have e : rs = List.replicate 5 false ++ List.replicate j false := by
        rw [List.replicate_append_replicate, ← hj]; exact h
      rw [e, five_failures_panic]; simp

/-- the round looks at no more than the first five results -/
theorem round_take5 (rs : List Bool) : round (rs.take 5) = round rs := by
  rcases decompose rs with ⟨i, rest, h⟩ | h
  · by_cases hi : i < 5
    · have : rs.take 5 = List.replicate i false ++ true :: rest.take (4 - i) := by
        rw [h]; exact take5_form i rest hi
      rw [this, h, success_ends_round i _ hi, success_ends_round i _ hi]
    · obtain ⟨j, rfl⟩ : ∃ j, i = 5 + j := ⟨i - 5, by omega⟩
      have e : rs = List.replicate 5 false ++ (List.replicate j false ++ true :: rest) := by
        rw [h, ← List.append_assoc, List.replicate_append_replicate]
      have : rs.take 5 = List.replicate 5 false ++ [] := by rw [e]; simp
      rw [this, five_failures_panic]; rw [e, five_failures_panic]
  · by_cases hl : rs.length < 5
    · rw [List.take_of_length_le (by omega)]
    · obtain ⟨j, hj⟩ : ∃ j, rs.length = 5 + j := ⟨rs.length - 5, by omega⟩
      have e : rs = List.replicate 5 false ++ List.replicate j false := by
        rw [List.replicate_append_replicate, ← hj]; exact h
      have : rs.take 5 = List.replicate 5 false ++ [] := by rw [e]; simp
      rw [this, five_failures_panic]; rw [e, five_failures_panic]

/-! ### the exhaustive 2⁵ table -/

/-- all result patterns of length `n` -/
def allPatterns : Nat → List (List Bool)
  | 0 => [[]]
  | n + 1 => (allPatterns n).flatMap fun p => [false :: p, true :: p]

theorem allPatterns_complete : ∀ (n : Nat) (p : List Bool), p.length = n → p ∈ allPatterns n
  | 0, [], _ => by simp [allPatterns]
  | n + 1, b :: p, h => by
    have ih := allPatterns_complete n p (by simpa using h)
    simp only [allPatterns, List.mem_flatMap]
    refine ⟨p, ih, ?_⟩
    cases b <;> simp

/-- the 32 rows: only `FFFFF` panics (after 5 pings); every other pattern issues
    `index of first success + 1` pings and returns -/
theorem table_32 : (allPatterns 5).all (fun p =>
    round p == (if p = [false, false, false, false, false] then ⟨5, .panic⟩
                else ⟨p.idxOf true + 1, .ok⟩)) = true := by decide

/-- the same, as a statement about every pattern of length five -/
theorem table_32_all (p : List Bool) (h : p.length = 5) :
    round p = (if p = [false, false, false, false, false] then ⟨5, .panic⟩
               else ⟨p.idxOf true + 1, .ok⟩) := by
  have := List.all_eq_true.1 table_32 p (allPatterns_complete 5 p h)
  simpa using this

/-! ### the monitor accepts the model -/

private theorem idxOf_replicate_false (i : Nat) (l : List Bool) :
    (List.replicate i false ++ l).idxOf true = i + l.idxOf true := by
  induction i with
  | zero => simp
  | succ i ih => simp [List.replicate_succ, List.idxOf_cons, ih]; omega

/-- `Spec.C19.holds` accepts what the model's round does, for every result stream -/
theorem holds_round (rs : List Bool) : holds rs (round rs).pings (round rs).res = true := by
  rcases decompose rs with ⟨i, rest, h⟩ | h
  · by_cases hi : i < 5
    · have t : rs.take 5 = List.replicate i false ++ true :: rest.take (4 - i) := by
        rw [h]; exact take5_form i rest hi
      have fs : firstSuccess rs = some i := by
        unfold firstSuccess
        simp only [t, idxOf_replicate_false]
        simp
      rw [h, success_ends_round i rest hi, ← h]
      simp [holds, fs]
    · obtain ⟨j, rfl⟩ : ∃ j, i = 5 + j := ⟨i - 5, by omega⟩
      have e : rs = List.replicate 5 false ++ (List.replicate j false ++ true :: rest) := by
        rw [h, ← List.append_assoc, List.replicate_append_replicate]
      have fs : firstSuccess rs = none := by
        unfold firstSuccess
        have : rs.take 5 = List.replicate 5 false := by rw [e]; simp
        simp only [this]; decide
      have hl : 5 ≤ rs.length := by rw [e]; simp
      rw [e, five_failures_panic, ← e]
      simp [holds, fs, hl]
  · by_cases hl : rs.length < 5
    · have fs : firstSuccess rs = none := by
        unfold firstSuccess
        rw [List.take_of_length_le (by omega), h]
        have := idxOf_replicate_false rs.length []
        simp at this
        simp [this]
      rw [h, short_failures_starved _ hl, ← h]
      have : ¬ 5 ≤ rs.length := by omega
      simp [holds, fs, this]
    · obtain ⟨j, hj⟩ : ∃ j, rs.length = 5 + j := ⟨rs.length - 5, by omega⟩
      have e : rs = List.replicate 5 false ++ List.replicate j false := by
        rw [List.replicate_append_replicate, ← hj]; exact h
      have fs : firstSuccess rs = none := by
        unfold firstSuccess
        have : rs.take 5 = List.replicate 5 false := by rw [e]; simp
        simp only [this]; decide
      have hl' : 5 ≤ rs.length := by omega
      rw [e, five_failures_panic, ← e]
      simp [holds, fs, hl']

/-! ### runs of rounds -/

/-- **sequences of rounds**: a run of rounds panics iff some round's first five
    results are all failures -/
theorem runRounds_panic_iff (rounds : List (List Bool)) :
    panicked (runRounds rounds) = true ↔ ∃ r ∈ rounds, r.take 5 = List.replicate 5 false := by
  induction rounds with
  | nil => simp [runRounds, panicked]
  | cons r rest ih =>
    unfold runRounds
    by_cases hp : (round r).res = .panic
    · simp only [hp, if_true]
      constructor
      · intro _; exact ⟨r, List.mem_cons_self, (panic_iff_five_failures r).1 hp⟩
      · intro _; simp [panicked, hp]
    · simp only [hp, if_false]
      have : panicked (round r :: runRounds rest) = panicked (runRounds rest) := by
        simp [panicked, hp]
      rw [this, ih]
      constructor
      · rintro ⟨x, hx, h⟩; exact ⟨x, List.mem_cons_of_mem _ hx, h⟩
      · rintro ⟨x, hx, h⟩
        rcases List.mem_cons.1 hx with rfl | hx
        · exact absurd ((panic_iff_five_failures x).2 h) hp
        · exact ⟨x, hx, h⟩

/-- the panicking round, if any, is the last one executed, and every earlier round
    ended without consequence -/
theorem runRounds_panic_last (rounds : List (List Bool)) :
    ∀ o ∈ (runRounds rounds).dropLast, o.res ≠ .panic := by
  induction rounds with
  | nil => simp [runRounds]
  | cons r rest ih =>
    unfold runRounds
    by_cases hp : (round r).res = .panic
    · simp [hp]
    · simp only [hp, if_false]
      intro o ho
      cases hr : runRounds rest with
      | nil => rw [hr] at ho; simp at ho
      | cons x xs =>
        rw [hr, List.dropLast_cons_cons] at ho
        rcases List.mem_cons.1 ho with rfl | ho
        · exact hp
        · exact ih o (by rw [hr]; exact ho)

/-- without a panicking round every round is executed -/
theorem runRounds_length (rounds : List (List Bool))
    (h : panicked (runRounds rounds) = false) : (runRounds rounds).length = rounds.length := by
  induction rounds with
  | nil => rfl
  | cons r rest ih =>
    unfold runRounds at h ⊢
    by_cases hp : (round r).res = .panic
    · simp [hp, panicked] at h
    · simp only [hp, if_false] at h ⊢
      have : panicked (runRounds rest) = false := by
        simpa [panicked, hp] using h
      simp [ih this]

/-- the run-of-rounds monitor accepts the model (complete rounds: every pattern
    contains a success among its first five results or has five results) -/
theorem holdsRounds_runRounds (rounds : List (List Bool))
    (hc : ∀ r ∈ rounds, (round r).res ≠ .starved) :
    holdsRounds rounds ((runRounds rounds).map (·.pings)) (panicked (runRounds rounds)) = true := by
  induction rounds with
  | nil => simp [runRounds, holdsRounds, panicked]
  | cons r rest ih =>
    have hr := holds_round r
    have hs := hc r List.mem_cons_self
    unfold runRounds
    by_cases hp : (round r).res = .panic
    · simp only [hp, if_true, List.map_cons, List.map_nil]
      rw [hp] at hr
      simp [holdsRounds, panicked, hp, hr]
    · simp only [hp, if_false, List.map_cons]
      have hok : (round r).res = .ok := by
        cases h : (round r).res <;> simp_all
      rw [hok] at hr
      have ihr := ih (fun x hx => hc x (List.mem_cons_of_mem _ hx))
      have pe : panicked (round r :: runRounds rest) = panicked (runRounds rest) := by
        simp [panicked, hp]
      rw [pe]
      unfold holdsRounds
      by_cases hd : (((runRounds rest).map (·.pings)).isEmpty && panicked (runRounds rest)) = true
      · -- impossible: a panicking remainder has at least one outcome
        exfalso
        simp only [Bool.and_eq_true, List.isEmpty_iff, List.map_eq_nil_iff] at hd
        rw [hd.1] at hd
        simp [panicked] at hd
      · simp only [hd, hr, ihr]
        simp

/-! ## Part 2 — the life cycle -/

theorem exec_append (σ : State) (xs ys : List Action) :
    exec σ (xs ++ ys) = (exec σ xs).bind (exec · ys) := by
  induction xs generalizing σ with
  | nil => simp [exec]
  | cons a as ih =>
    simp only [List.cons_append, exec]
    cases step σ a with
    | none => simp
    | some σ' => simp [ih]

/-- an invariant preserved by every step holds after every schedule -/
theorem exec_induct {P : State → Prop} (hstep : ∀ σ a σ', P σ → step σ a = some σ' → P σ')
    (σ : State) (acts : List Action) (σ' : State) (h0 : P σ) (h : exec σ acts = some σ') : P σ' := by
  induction acts generalizing σ with
  | nil => simp [exec] at h; exact h ▸ h0
  | cons a as ih =>
    simp only [exec] at h
    cases hs : step σ a with
    | none => simp [hs] at h
    | some σ₁ => rw [hs] at h; exact ih σ₁ (hstep σ a σ₁ h0 hs) h

/-- life-cycle invariant -/
structure Inv (σ : State) : Prop where
  /-- the goroutine exists iff `Start` has passed `go h.run` -/
  started : σ.g ≠ .notStarted ↔ σ.startPc = .returned
  /-- the WaitGroup counter is 1 exactly between `wg.Add(1)` and the goroutine's `wg.Done()` -/
  wgv : σ.wg = if σ.startPc = .wgAdded ∨ σ.g.running = true ∨ σ.g = .panicked then 1 else 0
  /-- `cancelFunc` is set from the second micro-step of `Start` on -/
  cset : σ.startPc ≠ .idle → σ.startPc ≠ .entered → σ.cancelSet = true
  /-- meaning of the ghost flag -/
  ord : σ.orderly = true → σ.stopPc ≠ .idle ∧ σ.startPc = .returned
  /-- an orderly `Stop` that passed its `if` has cancelled the context -/
  canc : σ.orderly = true → σ.stopPc ≠ .idle → σ.stopPc ≠ .entered → σ.cancelled = true
  /-- only `Stop` cancels -/
  conly : σ.cancelled = true → σ.stopPc = .cancelDone ∨ σ.stopPc = .returned
  /-- the goroutine returns only on cancellation -/
  stopc : σ.g = .stopped → σ.cancelled = true
  /-- an orderly `Stop` returns only after the goroutine has returned -/
  waited : σ.orderly = true → σ.stopPc = .returned → σ.g = .stopped
  /-- `go h.run` is executed at most once -/
  once : σ.spawns = if σ.startPc = .returned then 1 else 0

theorem inv_init : Inv init := by
  constructor <;> simp [init, GPc.running]

theorem inv_step (σ : State) (a : Action) (σ' : State) (I : Inv σ) (h : step σ a = some σ') : Inv σ' := by
  obtain ⟨i1, i2, i3, i4, i5, i6, i7, i8, i9⟩ := I
  unfold step at h
  split at h
  · cases h
  rename_i hnp
  cases a with
  | startCall =>
    simp only at h
    split at h
    · cases h; rename_i hs
      constructor <;> simp_all [GPc.running]
    · cases h; exact ⟨i1, i2, i3, i4, i5, i6, i7, i8, i9⟩
    · cases h
  | startSetCancel =>
    simp only at h
    split at h
    · cases h; rename_i hs
      constructor <;> simp_all [GPc.running]
    · cases h
  | startWgAdd =>
    simp only at h
    split at h
    · cases h; rename_i hs
      have hg : σ.g = .notStarted := by
        apply Decidable.byContradiction; intro hc; have := i1.1 hc; simp_all
      constructor <;> simp_all [GPc.running]
    · cases h
  | startSpawn =>
    simp only at h
    split at h
    · cases h; rename_i hs
      have hg : σ.g = .notStarted := by
        apply Decidable.byContradiction; intro hc; have := i1.1 hc; simp_all
      constructor <;> simp_all [GPc.running]
    · cases h
  | stopCall =>
    simp only at h
    split at h
    · cases h; rename_i hs
      constructor <;> simp_all [GPc.running]
    · cases h; exact ⟨i1, i2, i3, i4, i5, i6, i7, i8, i9⟩
    · cases h
  | stopCancel =>
    simp only at h
    split at h
    · cases h; rename_i hs
      constructor <;> simp_all [GPc.running]
    · cases h
  | stopWait =>
    simp only at h
    split at h
    · cases h; rename_i hs
      obtain ⟨hs1, hs2⟩ := hs
      constructor <;> simp_all [GPc.running]
      intro ho
      have hr := (i4 ho)
      have hne : σ.g ≠ .notStarted := i1.2 hr
      cases hg : σ.g <;> simp_all
    · cases h
  | tick =>
    simp only at h
    split at h
    · cases h; rename_i hs
      constructor <;> simp_all [GPc.running]
    · cases h
  | pingResult ok =>
    simp only at h
    split at h
    · rename_i k hk
      split at h
      · cases h; constructor <;> simp_all [GPc.running]
      · split at h
        · cases h; constructor <;> simp_all [GPc.running]
        · cases h; constructor <;> simp_all [GPc.running]
    · cases h
  | retryFires =>
    simp only at h
    split at h
    · cases h; rename_i k hk
      constructor <;> simp_all [GPc.running]
    · cases h
  | seeCancel =>
    simp only at h
    split at h
    · cases h; rename_i hs
      obtain ⟨hs1, hs2⟩ := hs
      have hrun : σ.g.running = true := by
        cases hg : σ.g <;> simp_all [GPc.running, GPc.inSelect]
      constructor <;> simp_all [GPc.running]
      all_goals (cases hg : σ.g <;> simp_all [GPc.inSelect])
    · cases h

/-- the invariant holds after every schedule from the initial state -/
theorem inv_reachable (acts : List Action) (σ : State) (h : exec init acts = some σ) : Inv σ :=
  exec_induct inv_step init acts σ inv_init h

/-! ### Stop -/

/-- once the goroutine has returned nothing pings any more -/
theorem step_stopped (σ : State) (a : Action) (σ' : State) (I : Inv σ) (h : step σ a = some σ')
    (hg : σ.g = .stopped) : σ'.g = .stopped ∧ σ'.pings = σ.pings := by
  have hsr : σ.startPc = .returned := I.started.1 (by simp [hg])
  unfold step at h
  split at h
  · cases h
  cases a <;> simp only at h <;> (repeat' split at h) <;> simp_all [GPc.inSelect]
  all_goals (cases h; simp_all)

/-- `Stop` having returned, and the ghost flag, are stable -/
theorem step_stop_returned (σ : State) (a : Action) (σ' : State) (h : step σ a = some σ')
    (hs : σ.stopPc = .returned) : σ'.stopPc = .returned ∧ σ'.orderly = σ.orderly := by
  unfold step at h
  split at h
  · cases h
  cases a <;> simp only at h <;> (repeat' split at h) <;> simp_all
  all_goals (cases h; simp_all)

theorem not_pingEnabled_of_stopped (σ : State) (hg : σ.g = .stopped) : pingEnabled σ = false := by
  simp [pingEnabled, step, hg]

/-- **no_ping_after_stop_returns** (all schedules).  If the first `Stop()` was
    called after the first `Start()` had returned, then from the moment `Stop()`
    has returned the `run` goroutine has returned, and along every continuation
    of the schedule no further `Ping()` is issued and none is enabled. -/
theorem no_ping_after_stop_returns (acts more : List Action) (σ σ' : State)
    (h : exec init acts = some σ) (hret : σ.stopPc = .returned) (hord : σ.orderly = true)
    (h' : exec σ more = some σ') :
    σ.g = .stopped ∧ σ'.g = .stopped ∧ σ'.pings = σ.pings ∧ pingEnabled σ' = false := by
  have hg : σ.g = .stopped := (inv_reachable acts σ h).waited hord hret
  have key : Inv σ' ∧ σ'.g = .stopped ∧ σ'.pings = σ.pings :=
    exec_induct (P := fun τ => Inv τ ∧ τ.g = .stopped ∧ τ.pings = σ.pings)
      (fun τ a τ' hP hs => by
        obtain ⟨h1, h2⟩ := step_stopped τ a τ' hP.1 hs hP.2.1
        exact ⟨inv_step τ a τ' hP.1 hs, h1, h2.trans hP.2.2⟩)
      σ more σ' ⟨inv_reachable acts σ h, hg, rfl⟩ h'
  exact ⟨hg, key.2.1, key.2.2, not_pingEnabled_of_stopped σ' key.2.1⟩

/-- non-vacuity: an orderly history (Start, one failed ping, Stop during the retry wait) -/
example : ∃ σ, exec init (startSeq ++ [.tick, .pingResult false, .stopCall, .stopCancel, .seeCancel, .stopWait])
    = some σ ∧ σ.stopPc = .returned ∧ σ.orderly = true ∧ σ.pings = 1 := by
  refine ⟨_, rfl, ?_⟩; decide

/-- the schedule "Stop() before Start(), then Start()" -/
def stopThenStart : List Action := [.stopCall, .stopCancel, .stopWait] ++ startSeq

/-- **refuted without the ordering hypothesis**: `Stop()` called on a checker that
    was never started returns at once (`cancelFunc == nil`, WaitGroup at 0) and burns
    `stopOnce`; a later `Start()` still launches the goroutine, which pings after
    `Stop()` has returned. -/
theorem no_ping_after_stop_returns_refuted :
    ∃ (acts more : List Action) (σ σ' : State), exec init acts = some σ ∧ σ.stopPc = .returned ∧
      exec σ more = some σ' ∧ σ.pings < σ'.pings :=
  ⟨stopThenStart, [.tick], _, _, rfl, rfl, rfl, by decide⟩

/-- the ordering hypothesis cannot be weakened to "`Start()` was *called* before
    `Stop()`": a `Stop()` racing with a `Start()` that has stored `cancelFunc` but not
    yet done `wg.Add(1)` cancels, finds the WaitGroup at 0 and returns; `Start()` then
    launches the goroutine on the cancelled context, whose outer `select` may still
    take a pending tick (Go chooses among ready cases at random) and ping. -/
theorem stop_racing_start_refuted :
    ∃ (σ σ' : State), exec init [.startCall, .startSetCancel, .stopCall, .stopCancel, .stopWait,
        .startWgAdd, .startSpawn] = some σ ∧ σ.stopPc = .returned ∧ σ.cancelled = true ∧
      exec σ [.tick] = some σ' ∧ σ.pings < σ'.pings :=
  ⟨_, _, rfl, rfl, rfl, rfl, by decide⟩

/-- the state reached by `Stop(); Start()` -/
def afterStopThenStart : State :=
  { g := .waitTick, startPc := .returned, stopPc := .returned, cancelSet := true, wg := 1, spawns := 1 }

theorem exec_stopThenStart : exec init stopThenStart = some afterStopThenStart := by decide

/-- … and that goroutine can never be stopped: after `Stop(); Start()` every later
    `Stop()` is a no-op, the context is never cancelled, the goroutine never returns
    (it ends only by panic). -/
theorem stop_before_start_unstoppable (more : List Action) (σ' : State)
    (h' : exec afterStopThenStart more = some σ') :
    σ'.cancelled = false ∧ σ'.g ≠ .stopped ∧ σ'.stopPc = .returned := by
  have key := exec_induct (P := fun τ => τ.cancelled = false ∧ τ.stopPc = .returned ∧ τ.g ≠ .stopped)
    (fun τ a τ' hP hs => by
      obtain ⟨c, r, g⟩ := hP
      unfold step at hs
      split at hs
      · cases hs
      cases a <;> simp only at hs <;> (repeat' split at hs) <;> simp_all
      all_goals (cases hs; simp_all))
    afterStopThenStart more σ' (by decide) h'
  exact ⟨key.1, key.2.2, key.2.1⟩

/-- a later `Stop()` in that situation returns immediately and changes nothing -/
example : ∃ σ, exec init stopThenStart = some σ ∧ step σ .stopCall = some σ ∧ σ.g = .waitTick :=
  ⟨_, rfl, rfl, rfl⟩

/-- **stop is prompt**: whenever the goroutine sits in a `select` (waiting for the
    tick, or in the 1 s retry wait after failed attempt `k`), an orderly `Stop()`
    can run to completion using only its own steps and the goroutine's reaction to
    the cancellation – no timer needs to fire, no ping is issued. -/
theorem stop_prompt (acts : List Action) (σ : State) (h : exec init acts = some σ)
    (hs : σ.startPc = .returned) (hi : σ.stopPc = .idle) (hg : σ.g.inSelect = true) :
    ∃ σ', exec σ [.stopCall, .stopCancel, .seeCancel, .stopWait] = some σ' ∧
      σ'.stopPc = .returned ∧ σ'.g = .stopped ∧ σ'.pings = σ.pings ∧ σ'.orderly = true := by
  have I := inv_reachable acts σ h
  have hcs : σ.cancelSet = true := I.cset (by simp [hs]) (by simp [hs])
  have hnp : σ.g ≠ .panicked := by intro hc; simp [hc, GPc.inSelect] at hg
  have hrun : σ.g.running = true := by cases hgg : σ.g <;> simp_all [GPc.inSelect, GPc.running]
  have hwg : σ.wg = 1 := by rw [I.wgv]; simp [hrun]
  refine ⟨{ σ with stopPc := .returned, orderly := true, cancelled := true, g := .stopped, wg := 0 }, ?_, rfl, rfl, rfl, rfl⟩
  simp [exec, step, hnp, hi, hs, hcs, hg, hwg]

/-- while a `Ping()` is in flight an orderly `Stop()` cannot return (`wg.Wait()`
    blocks until the call comes back): as coded, `Stop` is only as prompt as `Ping`. -/
theorem stop_waits_for_ping (acts : List Action) (σ : State) (k : Nat)
    (h : exec init acts = some σ) (hg : σ.g = .pinging k) : step σ .stopWait = none := by
  have I := inv_reachable acts σ h
  have hwg : σ.wg = 1 := by rw [I.wgv]; simp [hg, GPc.running]
  simp [step, hg, hwg]

/-- a cancellation that arrives during the fifth failing ping does not prevent the panic -/
theorem panic_despite_cancel (σ : State) (hg : σ.g = .pinging 5) :
    ∃ σ', step σ (.pingResult false) = some σ' ∧ σ'.g = .panicked := by
  simp [step, hg, maxRetries]

/-- after the panic nothing is enabled: the process is gone -/
theorem panicked_dead (σ : State) (a : Action) (hg : σ.g = .panicked) : step σ a = none := by
  simp [step, hg]

/-! ### Start / Stop idempotence -/

/-- **start_stop_idempotent** (1): a `Start()` call after the first one has
    returned changes nothing; while the first one is still inside the Once it blocks. -/
theorem start_idempotent (σ : State) (hnp : σ.g ≠ .panicked) :
    (σ.startPc = .returned → step σ .startCall = some σ) ∧
    (σ.startPc ≠ .idle → σ.startPc ≠ .returned → step σ .startCall = none) := by
  constructor
  · intro h; simp [step, hnp, h]
  · intro h1 h2; cases hs : σ.startPc <;> simp_all [step]

/-- **start_stop_idempotent** (2): same for `Stop()` -/
theorem stop_idempotent (σ : State) (hnp : σ.g ≠ .panicked) :
    (σ.stopPc = .returned → step σ .stopCall = some σ) ∧
    (σ.stopPc ≠ .idle → σ.stopPc ≠ .returned → step σ .stopCall = none) := by
  constructor
  · intro h; simp [step, hnp, h]
  · intro h1 h2; cases hs : σ.stopPc <;> simp_all [step]

/-- **start_stop_idempotent** (3): in every schedule, with any number of `Start()`
    calls, `go h.run` is executed at most once -/
theorem spawn_at_most_once (acts : List Action) (σ : State) (h : exec init acts = some σ) :
    σ.spawns ≤ 1 := by
  rw [(inv_reachable acts σ h).once]; split <;> omega

/-- … and the context is cancelled only by the `Stop()` that won `stopOnce` -/
theorem cancel_only_by_stop (acts : List Action) (σ : State) (h : exec init acts = some σ)
    (hc : σ.cancelled = true) : σ.stopPc = .cancelDone ∨ σ.stopPc = .returned :=
  (inv_reachable acts σ h).conly hc

/-! ### the goroutine's rounds are `round` -/

/-- ghost bookkeeping of the rounds played by the goroutine -/
structure RInv (σ : State) : Prop where
  shape : match σ.g with
    | .notStarted => σ.cur = []
    | .waitTick => σ.cur = []
    | .pinging k => 1 ≤ k ∧ k ≤ 5 ∧ σ.cur = List.replicate (k - 1) false
    | .retryWait k => 1 ≤ k ∧ k < 5 ∧ σ.cur = List.replicate k false
    | .stopped => ∃ k, k < 5 ∧ σ.cur = List.replicate k false
    | .panicked => σ.cur = List.replicate 5 false
  histOk : ∀ p ∈ σ.hist, round p = ⟨p.length, .ok⟩
  count : σ.pings = (σ.hist.map List.length).sum + σ.cur.length + (match σ.g with | .pinging _ => 1 | _ => 0)

theorem rinv_init : RInv init := by
  constructor <;> simp [init]

theorem rinv_step (σ : State) (a : Action) (σ' : State) (J : Inv σ) (I : RInv σ)
    (h : step σ a = some σ') : RInv σ' := by
  obtain ⟨i1, i2, i3⟩ := I
  unfold step at h
  split at h
  · cases h
  rename_i hnp
  cases a with
  | startCall =>
    simp only at h
    split at h
    · cases h; exact ⟨i1, i2, i3⟩
    · cases h; exact ⟨i1, i2, i3⟩
    · cases h
  | startSetCancel =>
    simp only at h
    split at h
    · cases h; exact ⟨i1, i2, i3⟩
    · cases h
  | startWgAdd =>
    simp only at h
    split at h
    · cases h; exact ⟨i1, i2, i3⟩
    · cases h
  | startSpawn =>
    simp only at h
    split at h
    · cases h; rename_i hs
      -- the goroutine is created with an empty current round
      have hg : σ.g = .notStarted := by
        apply Decidable.byContradiction; intro hc; have := J.started.1 hc; simp_all
      simp only [hg] at i1 i3
      constructor
      · simpa using i1
      · exact i2
      · simpa [i1] using i3
    · cases h
  | stopCall =>
    simp only at h
    split at h
    · cases h; exact ⟨i1, i2, i3⟩
    · cases h; exact ⟨i1, i2, i3⟩
    · cases h
  | stopCancel =>
    simp only at h
    split at h
    · cases h; exact ⟨i1, i2, i3⟩
    · cases h
  | stopWait =>
    simp only at h
    split at h
    · cases h; exact ⟨i1, i2, i3⟩
    · cases h
  | tick =>
    simp only at h
    split at h
    · cases h; rename_i hs
      constructor
      · simp
      · exact i2
      · simp [hs] at i1 i3 ⊢; simp [i1] at i3; omega
    · cases h
  | pingResult ok =>
    simp only at h
    split at h
    · rename_i k hk
      simp only [hk] at i1 i3
      obtain ⟨k1, k5, hc⟩ := i1
      split at h
      · cases h
        constructor
        · simp
        · intro p hp
          rcases List.mem_cons.1 hp with rfl | hp
          · rw [hc]
            have := success_ends_round (k - 1) [] (by omega)
            rw [this]; simp
          · exact i2 p hp
        · simp [hc] at i3 ⊢; omega
      · split at h
        · cases h; rename_i hlt
          unfold maxRetries at hlt
          constructor
          · simp only; refine ⟨k1, hlt, ?_⟩
            rw [hc, ← List.replicate_succ']; congr; omega
          · exact i2
          · simp [hc] at i3 ⊢; omega
        · cases h; rename_i hlt
          unfold maxRetries at hlt
          have : k = 5 := by omega
          subst this
          constructor
          · simp only; rw [hc]; rfl
          · exact i2
          · simp [hc] at i3 ⊢; omega
    · cases h
  | retryFires =>
    simp only at h
    split at h
    · cases h; rename_i k hk
      simp only [hk] at i1 i3
      obtain ⟨k1, k5, hc⟩ := i1
      constructor
      · simp only; exact ⟨by omega, by omega, by simpa using hc⟩
      · exact i2
      · simp [hc] at i3 ⊢; omega
    · cases h
  | seeCancel =>
    simp only at h
    split at h
    · cases h; rename_i hs
      obtain ⟨_, hs2⟩ := hs
      constructor
      · cases hg : σ.g <;> simp_all [GPc.inSelect]
      · exact i2
      · cases hg : σ.g <;> simp_all [GPc.inSelect]
    · cases h


theorem rinv_reachable (acts : List Action) (σ : State) (h : exec init acts = some σ) : RInv σ :=
  (exec_induct (P := fun τ => Inv τ ∧ RInv τ)
    (fun τ a τ' hP hs => ⟨inv_step τ a τ' hP.1 hs, rinv_step τ a τ' hP.1 hP.2 hs⟩)
    init acts σ ⟨inv_init, rinv_init⟩ h).2

/-- **LTS ⇔ round**: in every schedule the goroutine has panicked exactly when the
    current round has seen five failures in a row -/
theorem lts_panic_iff_five_failures (acts : List Action) (σ : State) (h : exec init acts = some σ) :
    σ.g = .panicked ↔ σ.cur = List.replicate 5 false := by
  have R := (rinv_reachable acts σ h).shape
  constructor
  · intro hg; simpa [hg] using R
  · intro hc
    cases hg : σ.g <;> simp only [hg] at R
    · rw [R] at hc; simp at hc
    · rw [R] at hc; simp at hc
    · rw [R.2.2] at hc; have := congrArg List.length hc; simp at this; omega
    · rw [R.2.2] at hc; have := congrArg List.length hc; simp at this; omega
    · obtain ⟨k, hk, e⟩ := R
      rw [e] at hc; have := congrArg List.length hc; simp at this; omega
    · rfl

/-- … every round the goroutine has completed is a `round` that returned normally
    after exactly as many pings as results, the round of a panic is `round = ⟨5, panic⟩`,
    and the ping counter is the sum over all rounds -/
theorem lts_rounds_are_round (acts : List Action) (σ : State) (h : exec init acts = some σ) :
    (∀ p ∈ σ.hist, round p = ⟨p.length, .ok⟩) ∧
    (σ.g = .panicked → round σ.cur = ⟨5, .panic⟩) ∧
    σ.pings = (σ.hist.map List.length).sum + σ.cur.length +
      (match σ.g with | .pinging _ => 1 | _ => 0) := by
  have R := rinv_reachable acts σ h
  refine ⟨R.histOk, ?_, R.count⟩
  intro hg
  rw [(lts_panic_iff_five_failures acts σ h).1 hg]
  exact five_failures_panic []

end GoDcp.Health
