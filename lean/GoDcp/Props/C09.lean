import GoDcp.Model.Chunk
import GoDcp.Spec.C09
/-!
# C09 — vBucket partition across group members is exact

Theorems for **all** `N`, `T` with `1 ≤ T ≤ N` (the property asks for
`N ≤ 1024`; nothing here depends on a bound).
-/
namespace GoDcp.Chunk

/-- the quotient/remainder view of the two Go expressions -/
theorem maxChunk_numFull (N T : Nat) (hT : 1 ≤ T) (hN : T ≤ N) :
    maxChunk N T = (N - 1) / T + 1 ∧ numFull N T = (N - 1) % T + 1 := by
  refine ⟨rfl, ?_⟩
  unfold numFull maxChunk
  have h1 := Nat.div_add_mod (N - 1) T
  have h2 := Nat.mod_lt (N - 1) (show T > 0 by omega)
  have h3 : ((N - 1) / T + 1) * T = T * ((N - 1) / T) + T := by
    rw [Nat.add_mul, Nat.one_mul, Nat.mul_comm]
  rw [h3]
  generalize T * ((N - 1) / T) = p at *
  omega

/-- the Go subtraction `maxChunkSize*chunks - len` never goes negative and
    `numFullChunks` is in `1..T` -/
theorem numFull_range (N T : Nat) (hT : 1 ≤ T) (hN : T ≤ N) :
    1 ≤ numFull N T ∧ numFull N T ≤ T ∧ N ≤ maxChunk N T * T := by
  have h := (maxChunk_numFull N T hT hN).2
  have h2 := Nat.mod_lt (N - 1) (show T > 0 by omega)
  refine ⟨by omega, by omega, ?_⟩
  unfold maxChunk
  have h1 := Nat.div_add_mod (N - 1) T
  have h3 : ((N - 1) / T + 1) * T = T * ((N - 1) / T) + T := by
    rw [Nat.add_mul, Nat.one_mul, Nat.mul_comm]
  rw [h3]
  generalize T * ((N - 1) / T) = p at *
  omega

/-- closed form of the loop variable -/
theorem start_closed (N T i : Nat) :
    start N T i = i * (maxChunk N T - 1) + min i (numFull N T) := by
  induction i with
  | zero => simp [start]
  | succ i ih =>
    simp only [start, ih, size, Nat.succ_mul]
    have : maxChunk N T ≥ 1 := Nat.le_add_left 1 _
    generalize i * (maxChunk N T - 1) = a
    split <;> omega

theorem start_zero (N T : Nat) : start N T 0 = 0 := rfl

/-- contiguity: each chunk starts where its predecessor stopped -/
theorem stop_eq_start_succ (N T i : Nat) : stop N T i = start N T (i + 1) := rfl

/-- exact cover: the last chunk stops at `N` -/
theorem start_last (N T : Nat) (hT : 1 ≤ T) (hN : T ≤ N) : start N T T = N := by
  rw [start_closed]
  obtain ⟨hm, hf⟩ := maxChunk_numFull N T hT hN
  have h1 := Nat.div_add_mod (N - 1) T
  have h2 := Nat.mod_lt (N - 1) (show T > 0 by omega)
  rw [hm, hf, Nat.add_sub_cancel]
  generalize T * ((N - 1) / T) = p at *
  omega

/-- sizes are `maxChunk` or `maxChunk - 1` … -/
theorem size_cases (N T i : Nat) :
    size N T i = maxChunk N T ∨ size N T i = maxChunk N T - 1 := by
  unfold size; split <;> simp

/-- … hence differ by at most one -/
theorem size_diff_le_one (N T i j : Nat) :
    size N T i ≤ size N T j + 1 := by
  rcases size_cases N T i with h | h <;> rcases size_cases N T j with h' | h' <;> omega

/-- non-empty: every member gets at least one vBucket -/
theorem size_pos (N T i : Nat) (hT : 1 ≤ T) (hN : T ≤ N) (hi : i < T) : 0 < size N T i := by
  obtain ⟨hm, hf⟩ := maxChunk_numFull N T hT hN
  unfold size
  split
  · -- i ≥ numFull, so numFull < T, so the quotient is ≥ 1
    rename_i hge
    have hq : 1 ≤ (N - 1) / T := by
      apply (Nat.le_div_iff_mul_le (by omega)).2
      -- if N - 1 < T then (N-1) % T = N-1 and numFull = N ≥ T > i, contradiction
      rcases Nat.lt_or_ge (N - 1) T with hlt | hge'
      · have h := Nat.mod_eq_of_lt hlt
        rw [h] at hf; omega
      · omega
    rw [hm]
    generalize (N - 1) / T = q at *
    omega
  · rw [hm]; exact Nat.succ_pos _

/-- ascending -/
theorem start_lt_stop (N T i : Nat) (hT : 1 ≤ T) (hN : T ≤ N) (hi : i < T) :
    start N T i < stop N T i := by
  have := size_pos N T i hT hN hi; unfold stop; omega

theorem start_mono (N T i j : Nat) (h : i ≤ j) : start N T i ≤ start N T j := by
  induction j with
  | zero => have : i = 0 := by omega
            subst this; exact Nat.le_refl _
  | succ j ih =>
    rcases Nat.lt_or_ge i (j + 1) with hl | hg
    · have := ih (by omega); simp only [start]; omega
    · have : i = j + 1 := by omega
      subst this; exact Nat.le_refl _

/-- pairwise disjoint: chunk `i` ends no later than chunk `j` begins, for `i < j` -/
theorem disjoint (N T i j : Nat) (h : i < j) : stop N T i ≤ start N T j := by
  rw [stop_eq_start_succ]; exact start_mono N T (i + 1) j h

/-- every vBucket id below `N` lies in some chunk with index `< T` -/
theorem cover_aux (N T : Nat) (v k : Nat) (hv : v < start N T k) :
    ∃ i, i < k ∧ start N T i ≤ v ∧ v < stop N T i := by
  induction k with
  | zero => simp [start] at hv
  | succ k ih =>
    rcases Nat.lt_or_ge v (start N T k) with hl | hg
    · obtain ⟨i, hi, h1, h2⟩ := ih hl
      exact ⟨i, by omega, h1, h2⟩
    · exact ⟨k, by omega, hg, by rw [stop_eq_start_succ]; exact hv⟩

/-- **C09, main statement.** For all `1 ≤ T ≤ N`: every vBucket `v < N` is owned
by exactly one member; each member's set is the non-empty interval
`[start, stop)`, these are ascending and contiguous, start at 0, end at `N`,
and sizes differ by at most one. -/
theorem C09_partition_exact (N T : Nat) (hT : 1 ≤ T) (hN : T ≤ N) :
    start N T 0 = 0 ∧ start N T T = N ∧
    (∀ i, i < T → start N T i < stop N T i ∧ stop N T i = start N T (i + 1)) ∧
    (∀ i j, size N T i ≤ size N T j + 1) ∧
    (∀ v, v < N → ∃ i, i < T ∧ (start N T i ≤ v ∧ v < stop N T i) ∧
        ∀ j, j < T → (start N T j ≤ v ∧ v < stop N T j) → j = i) := by
  refine ⟨rfl, start_last N T hT hN, ?_, size_diff_le_one N T, ?_⟩
  · intro i hi; exact ⟨start_lt_stop N T i hT hN hi, rfl⟩
  · intro v hv
    obtain ⟨i, hi, h1, h2⟩ := cover_aux N T v T (by rw [start_last N T hT hN]; exact hv)
    refine ⟨i, hi, ⟨h1, h2⟩, ?_⟩
    intro j _ ⟨hj1, hj2⟩
    rcases Nat.lt_trichotomy i j with hlt | heq | hgt
    · have := disjoint N T i j hlt; omega
    · exact heq.symm
    · have := disjoint N T j i hgt; omega

/-- the range handed to the stream (`vbIDRange{first, last}`) is exactly the chunk -/
theorem memberRange_spec (N T m : Nat) (hT : 1 ≤ T) (hN : T ≤ N) (hm1 : 1 ≤ m) (hm : m ≤ T) :
    (memberRange N T m).1 = start N T (m - 1) ∧
    (memberRange N T m).2 + 1 = stop N T (m - 1) ∧
    (memberRange N T m).1 ≤ (memberRange N T m).2 ∧ (memberRange N T m).2 < N := by
  have hlt := start_lt_stop N T (m - 1) hT hN (by omega)
  have hle : stop N T (m - 1) ≤ start N T T := by
    rw [stop_eq_start_succ]; exact start_mono N T _ _ (by omega)
  rw [start_last N T hT hN] at hle
  unfold memberRange; dsimp only; omega

/-- non-vacuity / sanity: the 1024-vBucket bucket split over 3 members -/
example : bounds 1024 3 = [(0, 342), (342, 683), (683, 1024)] := by decide
example : bounds 7 7 = [(0,1),(1,2),(2,3),(3,4),(4,5),(5,6),(6,7)] := by decide

end GoDcp.Chunk

namespace GoDcp.Spec.C09
open GoDcp.Chunk

theorem walk_bounds_aux (N T : Nat) (hT : 1 ≤ T) (hN : T ≤ N) (k n : Nat) (hk : k + n ≤ T) :
    walk (start N T k) ((List.range' k n).map fun i => (start N T i, stop N T i))
      = some (start N T (k + n)) := by
  induction n generalizing k with
  | zero => simp [walk]
  | succ n ih =>
    simp only [List.range'_succ, List.map_cons, walk]
    have hlt := start_lt_stop N T k hT hN (by omega)
    simp only [hlt, and_self, if_true]
    rw [stop_eq_start_succ, ih (k + 1) (by omega)]
    congr 2; omega

theorem foldl_max_le (l : List Nat) (a b : Nat) (ha : a ≤ b) (h : ∀ x ∈ l, x ≤ b) :
    l.foldl max a ≤ b := by
  induction l generalizing a with
  | nil => simpa
  | cons x r ih =>
    simp only [List.foldl_cons]
    exact ih _ (Nat.max_le.2 ⟨ha, h x (by simp)⟩) (fun y hy => h y (by simp [hy]))

theorem le_foldl_min (l : List Nat) (a b : Nat) (ha : b ≤ a) (h : ∀ x ∈ l, b ≤ x) :
    b ≤ l.foldl min a := by
  induction l generalizing a with
  | nil => simpa
  | cons x r ih =>
    simp only [List.foldl_cons]
    exact ih _ (Nat.le_min.2 ⟨ha, h x (by simp)⟩) (fun y hy => h y (by simp [hy]))

/-- what `balanced` means: any two sizes differ by at most one -/
theorem balanced_spec (cs : List (Nat × Nat)) (h : balanced cs = true) :
    ∀ a ∈ sizes cs, ∀ b ∈ sizes cs, a ≤ b + 1 := by
  simp only [balanced, decide_eq_true_eq] at h
  have hmax : ∀ (l : List Nat) (i x : Nat), x ∈ l → x ≤ l.foldl max i := by
    intro l; induction l with
    | nil => simp
    | cons y r ih =>
      intro i x hx
      simp only [List.foldl_cons]
      rcases List.mem_cons.1 hx with rfl | hx
      · have : ∀ (l : List Nat) (i : Nat), i ≤ l.foldl max i := by
          intro l; induction l with
          | nil => simp
          | cons z r ih2 => intro i; simp only [List.foldl_cons]; exact Nat.le_trans (Nat.le_max_left _ _) (ih2 _)
        exact Nat.le_trans (Nat.le_max_right _ _) (this r _)
      · exact ih _ x hx
  have hmin : ∀ (l : List Nat) (i x : Nat), x ∈ l → l.foldl min i ≤ x := by
    intro l; induction l with
    | nil => simp
    | cons y r ih =>
      intro i x hx
      simp only [List.foldl_cons]
      rcases List.mem_cons.1 hx with rfl | hx
      · have : ∀ (l : List Nat) (i : Nat), l.foldl min i ≤ i := by
          intro l; induction l with
          | nil => simp
          | cons z r ih2 => intro i; simp only [List.foldl_cons]; exact Nat.le_trans (ih2 _) (Nat.min_le_left _ _)
        exact Nat.le_trans (this r _) (Nat.min_le_right _ _)
      · exact ih _ x hx
  intro a ha b hb
  have := hmax _ 0 a ha
  have := hmin _ ((sizes cs).headD 0) b hb
  omega

/-- the monitor accepts the model's output for every `1 ≤ T ≤ N` -/
theorem holds_bounds (N T : Nat) (hT : 1 ≤ T) (hN : T ≤ N) : holds N T (bounds N T) = true := by
  unfold holds
  have hlen : (bounds N T).length = T := by simp [bounds]
  have hw : walk 0 (bounds N T) = some N := by
    have := walk_bounds_aux N T hT hN 0 T (by omega)
    simpa [bounds, start_last N T hT hN, start, List.range_eq_range'] using this
  have hb : balanced (bounds N T) = true := by
    have hs : ∀ a ∈ sizes (bounds N T), maxChunk N T - 1 ≤ a ∧ a ≤ maxChunk N T := by
      intro a ha
      simp only [sizes, bounds, List.map_map, List.mem_map, Function.comp, stop,
        Nat.add_sub_cancel_left] at ha
      obtain ⟨i, _, rfl⟩ := ha
      rcases size_cases N T i with h | h <;> omega
    have hhd : maxChunk N T - 1 ≤ (sizes (bounds N T)).headD 0 := by
      cases hl : sizes (bounds N T) with
      | nil => simp [sizes, bounds] at hl; omega
      | cons a r => simp only [List.headD_cons]; exact (hs a (by simp [hl])).1
    simp only [balanced, decide_eq_true_eq]
    have h1 := foldl_max_le (sizes (bounds N T)) 0 (maxChunk N T) (Nat.zero_le _) (fun a ha => (hs a ha).2)
    have h2 := le_foldl_min (sizes (bounds N T)) _ (maxChunk N T - 1) hhd (fun a ha => (hs a ha).1)
    omega
  simp [hlen, hw, hb]

end GoDcp.Spec.C09

namespace GoDcp.Chunk

theorem startFast_eq (N T i : Nat) : startFast N T i = start N T i := (start_closed N T i).symm

theorem boundsLoop_eq (N T fuel i : Nat) :
    boundsLoop (maxChunk N T) (numFull N T) fuel i (start N T i)
      = (List.range' i fuel).map fun k => (start N T k, stop N T k) := by
  induction fuel generalizing i with
  | zero => simp [boundsLoop]
  | succ f ih =>
    simp only [boundsLoop, List.range'_succ, List.map_cons]
    have h : start N T i + (if i ≥ numFull N T then maxChunk N T - 1 else maxChunk N T)
        = start N T (i + 1) := by simp [start, size]
    rw [h, ih (i + 1)]
    simp [stop_eq_start_succ]

theorem boundsFast_eq (N T : Nat) : boundsFast N T = bounds N T := by
  have := boundsLoop_eq N T T 0
  simpa [boundsFast, bounds, start, List.range_eq_range'] using this

theorem memberRangeFast_eq (N T m : Nat) (hm : 1 ≤ m) : memberRangeFast N T m = memberRange N T m := by
  unfold memberRangeFast memberRange
  rw [startFast_eq, startFast_eq, stop_eq_start_succ]
  congr 3; omega

end GoDcp.Chunk
