import GoDcp.Driver.All
import GoDcp.Driver.Session
import GoDcp.Driver.SessionMon
import GoDcp.Driver.Life

open GoDcp.Driver

structure DState where
  sess : GoDcp.St := {}
  smon : SMon := {}
  life : GoDcp.Life.LSt := {}
  lmon : LMon := {}

/-- one protocol line: `OP[<TAB>REAL]` ↦ `MODEL<TAB>VERDICT` -/
def handle (st : DState) (line : String) : DState × String :=
  let (op, real) := match line.splitOn "\t" with
    | [o] => (o, none)
    | o :: r :: _ => (o, some r)
    | [] => ("", none)
  match toks op with
  | [] => (st, "bad-op\t-")
  | c :: args =>
    match sessionLine st.sess (c :: args) with
    | some (s', out) =>
      if c == "reset" then ({ st with sess := s', smon := {} }, s!"{out}\t-") else
      match real with
      | none => ({ st with sess := s' }, s!"{out}\t-")
      | some r =>
        let (m', v) := smonStep st.smon st.sess s' (c :: args) r
        ({ st with sess := s', smon := m' }, s!"{out}\t{v}")
    | none =>
    match lifeLine st.life st.lmon (c :: args) real with
    | some (l', m', out, v) => ({ st with life := l', lmon := m' }, s!"{out}\t{v}")
    | none =>
      match allHandlers.lookup c with
      | none => (st, "bad-op\t-")
      | some h => match h args real with
        | none => (st, "bad-op\t-")
        | some o => (st, s!"{o.model}\t{o.verdict}")

partial def loop (h : IO.FS.Stream) (out : IO.FS.Stream) (st : DState) : IO Unit := do
  let line ← h.getLine
  if line.isEmpty then return ()
  let l := ((line.splitOn "\n").headD "")
  let (st', o) := handle st l
  out.putStrLn o
  loop h out st'

def main : IO Unit := do
  let out ← IO.getStdout
  loop (← IO.getStdin) out {}
  out.flush
