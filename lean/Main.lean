import GoDcp.Driver.All

open GoDcp.Driver

def handle (line : String) : String :=
  let (op, real) := match line.splitOn "\t" with
    | [o] => (o, none)
    | o :: r :: _ => (o, some r)
    | [] => ("", none)
  match toks op with
  | [] => "bad-op\t-"
  | c :: args =>
    match allHandlers.lookup c with
    | none => "bad-op\t-"
    | some h => match h args real with
      | none => "bad-op\t-"
      | some o => s!"{o.model}\t{o.verdict}"

partial def loop (h : IO.FS.Stream) (out : IO.FS.Stream) : IO Unit := do
  let line ← h.getLine
  if line.isEmpty then return ()
  let l := ((line.splitOn "\n").headD "")
  out.putStrLn (handle l)
  loop h out

def main : IO Unit := do
  let out ← IO.getStdout
  loop (← IO.getStdin) out
  out.flush
