import GoDcp.Driver.All
import GoDcp.Driver.Session
import GoDcp.Driver.SessionMon
import GoDcp.Driver.Api
import GoDcp.Driver.Life
import GoDcp.Driver.WaitRace

open GoDcp.Driver

structure DState where
  sess : GoDcp.St := {}
  smon : SMon := {}
  caseStart : GoDcp.St := {}
  caseOps : List GoDcp.Op := []
  sessStart : GoDcp.St := {}
  sessOps : List GoDcp.Op := []
  life : GoDcp.Life.LSt := {}
  lmon : LMon := {}
  api : ApiSt := {}
  wr : WR := {}

/-- one protocol line: `OP[<TAB>REAL]` ↦ `MODEL<TAB>VERDICT` -/
def handle (st : DState) (line : String) : DState × String :=
  let (op, real) := match line.splitOn "\t" with
    | [o] => (o, none)
    | o :: r :: _ => (o, some r)
    | [] => ("", none)
  match toks op with
  | [] => (st, "bad-op\t-")
  | c0 :: args0 =>
    match apiPrepareOp st.api (c0 :: args0) with
    | [] => (st, "bad-op\t-")
    | c :: args =>
    match apiLine st.api (c :: args) real with
    | some (a', out, v) => ({ st with api := a' }, s!"{out}\t{v}")
    | none =>
    match sessionOrApiLine (apiPrepare st.api st.sess (c :: args)) (c :: args) with
    | some (s', out0) =>
      let out := apiDecorate st.api (c :: args) out0
      let apiBefore := st.api
      let st := { st with api := apiAfterSessionOp st.api (c :: args) st.sess s' }
      if c == "reset" then ({ st with sess := s', smon := {}, caseStart := {}, caseOps := [], sessStart := {}, sessOps := [], api := {}, wr := {} }, s!"{out}\t-") else
      if c == "cfg" then ({ st with sess := s', caseStart := s', caseOps := [] }, s!"{out}\t-") else
      -- histories for the known-finding classifiers: whole case (C01), current session (C05)
      let opO := sessionOrApiOp (c :: args)
      let caseOps := match opO with | some o => st.caseOps ++ [o] | none => st.caseOps
      let (sessStart, sessOps) := match opO with
        | some .open => (s', [])
        | some (.rebalance _ _) => (s', [])    -- `C05_partial` speaks about the history after a completed rebalance
        | some o => (st.sessStart, st.sessOps ++ [o])
        | none => (st.sessStart, st.sessOps)
      let st1 := { st with sess := s', caseOps := caseOps, sessStart := sessStart, sessOps := sessOps }
      match real with
      | none => (st1, s!"{out}\t-")
      | some r =>
        let (m', v0) := smonStep st.smon st.sess s' (c :: args) r st.caseStart caseOps sessStart sessOps
        let v := apiPostVerdict apiBefore st.sess (c :: args) r v0
        ({ st1 with smon := m' }, s!"{out}\t{v}")
    | none =>
    match lifeLine st.life st.lmon (c :: args) real with
    | some (l', m', out, v) => ({ st with life := l', lmon := m' }, s!"{out}\t{v}")
    | none =>
    match wrLine st.wr (c :: args) real with
    | some (w', out, v) => ({ st with wr := w' }, s!"{out}\t{v}")
    | none =>
      match allHandlers.lookup c with
      | none => (st, "bad-op\t-")
      | some h => match h args real with
        | none => (st, "bad-op\t-")
        | some o => (st, s!"{o.model}\t{o.verdict}")

partial def loop (h : IO.FS.Stream) (out : IO.FS.Stream) (st : DState) : IO Unit := do
  let line ← h.getLine
  if line.isEmpty then return ()
  let l := ((line.splitOn "\n").headD "")
  let (st', o) := handle st l
  out.putStrLn o
  loop h out st'

def main : IO Unit := do
  let out ← IO.getStdout
  loop (← IO.getStdin) out {}
  out.flush
