import GoDcp.Model.Basic
import GoDcp.Model.Chunk
import GoDcp.Model.Observer
import GoDcp.Model.Session
import GoDcp.Props.C09
