import GoDcp.Model.Chunk
import GoDcp.Props.C09
